(** C13 - No time-respecting path is missed. *)
From DynVerif Require Import Base Graph Annotate Paths.
From DynVerif.proofs Require Import SnapInv PathFacts PathComplete PathValid SampleFacts.
From Coq Require Import Sorting.Sorted.

(** when u has no interaction at start (u not in the graph when start is omitted) the result is empty *)
Theorem C13_absent_root : forall g u v s e, has_node g u s = false -> time_respecting_paths g u v s e = PathsOk [].
Proof. intros g u v s e H. unfold time_respecting_paths. rewrite H. reflexivity. Qed.
Print Assumptions C13_absent_root.

(** the enumeration over the DAG misses no simple path: every duplicate-free walk from x to tgt along DAG edges
    is returned by the search (fuel = number of DAG nodes + 1 always suffices for a duplicate-free walk) *)
Theorem C13_search_complete : forall E p x tgt, walk E x tgt p -> NoDup p -> forall fuel,
  (length p <= fuel)%nat -> In p (dfs E fuel [] x tgt).
Proof. intros E p x tgt Hw Hn fuel Hl. eapply dfs_complete; eauto. Qed.
Print Assumptions C13_search_complete.

(** all_time_respecting_paths(G,start,end,min_t) is the per-node query for every node present at min_t *)
Theorem C13_all : forall g s e us l, all_trp g s e us = Some l ->
  map fst l = us /\ forall u ps, In (u, ps) l -> time_respecting_paths g u None s e = PathsOk ps.
Proof.
  intros g s e us. induction us as [|u r IH]; intros l H; simpl in H.
  - inversion H; subst. split; [reflexivity|intros ? ? []].
  - destruct (time_respecting_paths g u None s e) as [ps|] eqn:E; [|discriminate].
    destruct (all_trp g s e r) as [rest|] eqn:Er; [|discriminate]. inversion H; subst.
    destruct (IH rest eq_refl) as (Hm & Hp). split; [simpl; f_equal; exact Hm|].
    intros u' ps' [Hin|Hin]; [inversion Hin; subst; exact E|apply Hp; exact Hin].
Qed.
Print Assumptions C13_all.

(** PARTIAL (finding K-C13-1) -- COMPLETENESS: for a proper window [ids] (strictly increasing snapshot ids inside
    [start,end]), every hop sequence satisfying C12's conditions ([valid_path]: first hop leaves u at a window instant,
    hops chain, times strictly increase inside the window, every hop is an interaction present at its time, every
    intermediate node has an interaction at every window id strictly between arrival and departure; [keep_path]: no
    hop reverses its predecessor) that ends in v when v is given, and whose FIRST hop is not a self-loop of the root,
    is returned. *)
Theorem C13_complete_partial : forall g u v ids p, StronglySorted Z.lt ids ->
  valid_path g ids u p -> keep_path p = true ->
  (match p with (_, y, _) :: _ => y <> u | [] => True end) ->
  (forall v', v = Some v' -> exists a t, last p (0,0,0) = (a, v', t)) ->
  In p (all_paths_dag u (dag_of' g u v ids)).
Proof. exact paths_complete. Qed.
Print Assumptions C13_complete_partial.

(** the DAG itself is complete: every neighbour of the root at a window instant hangs off the source occurrence,
    every occurrence that is still waiting is extended at the next instant where it has neighbours, and every
    reached occurrence (of v, when v is given) is a target *)
Theorem C13_dag_complete : forall g u v ids, StronglySorted Z.lt ids ->
  ((forall t y, In t ids -> In y (nbrs_t g u t) -> In (Occ u t, Occ y t) (d_edges (dag_of' g u v ids))) /\
  (forall w x s y t, In (w, Occ x s) (d_edges (dag_of' g u v ids)) -> In t ids -> s < t -> alive g ids x s t ->
     In y (nbrs_t g x t) -> In (Occ x s, Occ y t) (d_edges (dag_of' g u v ids))) /\
  (forall w y t, In (w, Occ y t) (d_edges (dag_of' g u v ids)) -> (forall v', v = Some v' -> y = v') ->
     In (Occ y t) (d_targets (dag_of' g u v ids))))%type.
Proof.
  intros g u v ids Hs. split; [apply dag_source_edges; assumption|].
  split; [apply dag_inner_edges; assumption|apply dag_targets_complete; assumption].
Qed.
Print Assumptions C13_dag_complete.

(** EXACT characterisation (soundness of C12 + completeness): for a proper window, a hop sequence whose first hop is
    not a self-loop of the root is returned IF AND ONLY IF it is a valid path, passes the ping-pong filter and ends
    in v when v is given: the result equals the brute-force enumeration, up to the known defect below *)
Theorem C13_exact : forall g u v ids p, StronglySorted Z.lt ids ->
  (match p with (_, y, _) :: _ => y <> u | [] => True end) ->
  (In p (all_paths_dag u (dag_of' g u v ids)) <->
   valid_path g ids u p /\ keep_path p = true /\ (forall v', v = Some v' -> exists a t, last p (0,0,0) = (a, v', t))).
Proof. exact paths_exact. Qed.
Print Assumptions C13_exact.

(** the same, END TO END: for a root present at start and a proper window, the list returned by
    time_respecting_paths contains a hop sequence (whose first hop is not a self-loop of the root) if and only if it
    is a valid path over the ids of the window [start, end], passes the ping-pong filter and ends in v.
    ([NoDup (map fst (g_snaps g))]: one counter per instant, true of every reachable graph, SnapInv.) *)
Theorem C13_exact_end_to_end : forall g u v s e l p,
  NoDup (map fst (g_snaps g)) -> has_node g u s = true ->
  time_respecting_paths g u v s e = PathsOk l ->
  (match p with (_, y, _) :: _ => y <> u | [] => True end) ->
  exists ids, window_ids g s e = Some ids /\
   (In p l <-> valid_path g ids u p /\ keep_path p = true /\
               (forall v', v = Some v' -> exists a t, last p (0,0,0) = (a, v', t))).
Proof.
  intros g u v s e l p Hnd Hn H Hp. unfold time_respecting_paths in H. rewrite Hn in H. cbn [negb] in H.
  unfold temporal_dag in H. destruct (window_ids g s e) as [ids|] eqn:Hw; [|discriminate].
  inversion H; subst. exists ids. split; [reflexivity|].
  apply (paths_exact g u v ids p); [eapply window_ids_sorted; eauto|exact Hp].
Qed.
Print Assumptions C13_exact_end_to_end.

(** finding K-C13-1: a path whose first hop is a self-loop of the root is missed *)
Theorem C13_complete_refuted : exists g u l,
  time_respecting_paths g u None None None = PathsOk l /\
  In 1 (nbrs_t g 1 0) /\ In 2 (nbrs_t g 1 1) /\ ~ In [(1, 1, 0); (1, 2, 1)] l.
Proof.
  exists (fst (add_interaction (fst (add_interaction (empty_graph false true) 1 1 (Some 0) None)) 1 2 (Some 1) None)), 1.
  eexists. split; [vm_compute; reflexivity|]. split; [vm_compute; auto|]. split; [vm_compute; auto|].
  intros H. repeat (destruct H as [H|H]; [discriminate|]). exact H.
Qed.
Print Assumptions C13_complete_refuted.

(** sample < 1: whatever sub-collection of the (source, target) pairs is drawn, the result is a duplicate-free
    sub-collection of the full result (and the draw cannot turn an error into a result or back); drawing every
    pair is the unsampled function *)
Theorem C13_sample_subset : forall sel g u v s e l,
  (forall ps, incl (sel ps) ps) ->
  time_respecting_paths_sel sel g u v s e = PathsOk l ->
  exists full, time_respecting_paths g u v s e = PathsOk full /\ incl l full /\ NoDup l.
Proof. exact sample_subset. Qed.
Print Assumptions C13_sample_subset.

Theorem C13_sample_all : forall g u v s e,
  time_respecting_paths_sel (fun l => l) g u v s e = time_respecting_paths g u v s e.
Proof. exact trp_sel_id. Qed.
Print Assumptions C13_sample_all.

Theorem C13_sample_error : forall sel g u v s e,
  time_respecting_paths_sel sel g u v s e = PathsValueError <-> time_respecting_paths g u v s e = PathsValueError.
Proof. exact sample_error. Qed.
Print Assumptions C13_sample_error.

Example C13_sample_example :
  let g := fst (add_interaction (fst (add_interaction (empty_graph false true) 1 2 (Some 0) None)) 2 3 (Some 1) None) in
  time_respecting_paths_sel (fun l => tl l) g 1 None None None = PathsOk [[(1, 2, 0); (2, 3, 1)]] /\
  time_respecting_paths g 1 None None None = PathsOk [[(1, 2, 0)]; [(1, 2, 0); (2, 3, 1)]].
Proof. vm_compute. auto. Qed.
Print Assumptions C13_sample_example.
