(** C15 - temporal_dag is acyclic, sound and window-respecting.
    Occurrences "node_time" are modelled as [Occ n t]; [nbrs_t g x t] is G.neighbors(x, t) (successors when G is
    directed), i.e. (C02) the interactions present at t. *)
From DynVerif Require Import Base Graph Annotate Paths IO Names.
From DynVerif.proofs Require Import SnapInv PathFacts NameFacts.
From Coq Require Import Sorting.Sorted.

(** the DAG that temporal_dag returns for a proper window [ids] (strictly increasing, C15_window) *)
Definition dag_of (g : graph) (u : Z) (v : option Z) (ids : list Z) : dag :=
  fst (fold_left (dag_step g u v) ids (mkDag [] [] [], [Root])).

Lemma dag_of_eq g u v ids : fold_left (dag_step g u v) ids (mkDag [] [] [], [Root]) = (dag_of g u v ids, snd (fold_left (dag_step g u v) ids (mkDag [] [] [], [Root]))).
Proof. unfold dag_of. destruct (fold_left _ _ _); reflexivity. Qed.

(** every edge X@s -> Y@t: t in the window, Y a neighbour of X at t, and s < t unless X@s is a source occurrence
    of u (then s = t) *)
Theorem C15_edge_sound : forall g u v ids, StronglySorted Z.lt ids ->
  forall e, In e (d_edges (dag_of g u v ids)) -> edge_ok g u ids (d_sources (dag_of g u v ids)) e.
Proof. intros g u v ids Hs. eapply dag_edges_sound; [exact Hs|apply dag_of_eq]. Qed.
Print Assumptions C15_edge_sound.

(** the sources are exactly the occurrences of u at window instants where u has a neighbour *)
Theorem C15_sources : forall g u v ids, StronglySorted Z.lt ids ->
  forall o, In o (d_sources (dag_of g u v ids)) <-> exists t, o = Occ u t /\ In t ids /\ nbrs_t g u t <> [].
Proof. intros g u v ids Hs. eapply dag_sources_exact; [exact Hs|apply dag_of_eq]. Qed.
Print Assumptions C15_sources.

(** targets are occurrences of v (of any reached node when v is None), at window instants, and nodes of the DAG *)
Theorem C15_targets : forall g u v ids o, In o (d_targets (dag_of g u v ids)) ->
  exists y t, o = Occ y t /\ In t ids /\ (forall v', v = Some v' -> y = v') /\ exists x, In (x, Occ y t) (d_edges (dag_of g u v ids)).
Proof. intros g u v ids. eapply dag_targets_sound. apply dag_of_eq. Qed.
Print Assumptions C15_targets.

(** PARTIAL (finding K-C15-1): acyclic when the root has no self-loop at a window instant.  Along every edge the
    instant strictly increases except out of a source occurrence, whose only way back would be a self-loop of u:
    so the rank (instant, non-source first) strictly increases and no edge is a loop. *)
Theorem C15_acyclic_partial : forall g u v ids, StronglySorted Z.lt ids ->
  (forall t, In t ids -> ~ In u (nbrs_t g u t)) ->
  forall x y, In (x, y) (d_edges (dag_of g u v ids)) ->
    x <> y /\ match x, y with Occ _ s, Occ _ t => s <= t | _, _ => False end.
Proof.
  intros g u v ids Hs Hl x y Hin. split.
  - eapply dag_no_loop; eauto. apply dag_of_eq.
  - pose proof (C15_edge_sound g u v ids Hs (x, y) Hin) as He. destruct x, y; simpl in He; try contradiction.
    destruct He as (_ & _ & [H|(H & _)]); lia.
Qed.
Print Assumptions C15_acyclic_partial.
(** with a self-loop of the root at a window instant the DAG has the loop u_t -> u_t: the full statement is refuted *)
Theorem C15_acyclic_refuted : exists g u ids x, In (x, x) (d_edges (dag_of g u None ids)).
Proof.
  exists (fst (add_interaction (empty_graph false true) 1 1 (Some 0) None)), 1, [0], (Occ 1 0). vm_compute. auto.
Qed.
Print Assumptions C15_acyclic_refuted.

(** improper windows raise ValueError, a graph without snapshots yields an empty DAG, proper windows are
    strictly increasing sub-lists of the snapshot ids inside [start, end] *)
Theorem C15_window : forall g u v s e,
  (snapshot_ids g = [] -> temporal_dag g u v s e = DagOk (mkDag [] [] [])) /\
  (forall ids, NoDup (map fst (g_snaps g)) -> window_ids g s e = Some ids -> StronglySorted Z.lt ids) /\
  (window_ids g s e = None -> temporal_dag g u v s e = DagValueError).
Proof.
  intros. split; [|split].
  - intros H. unfold temporal_dag, window_ids. rewrite H. reflexivity.
  - intros ids Hn Hw. eapply window_ids_sorted; eauto.
  - intros H. unfold temporal_dag. rewrite H. reflexivity.
Qed.
Print Assumptions C15_window.

(** END TO END: whatever temporal_dag returns is [dag_of] of the window ids, which are strictly increasing and lie in
    [start, end]; so the four theorems above speak about the returned DAG itself *)
Theorem C15_end_to_end : forall g u v s e d, NoDup (map fst (g_snaps g)) -> temporal_dag g u v s e = DagOk d ->
  exists ids, window_ids g s e = Some ids /\ StronglySorted Z.lt ids /\ d = dag_of g u v ids /\
    (forall o, In o (d_sources d) <-> exists t, o = Occ u t /\ In t ids /\ nbrs_t g u t <> []) /\
    (forall x, In x (d_edges d) -> edge_ok g u ids (d_sources d) x).
Proof.
  intros g u v s e d Hn H. unfold temporal_dag in H. destruct (window_ids g s e) as [ids|] eqn:Hw; [|discriminate].
  inversion H; subst. exists ids. assert (Hs : StronglySorted Z.lt ids) by (eapply window_ids_sorted; eauto).
  split; [reflexivity|]. split; [exact Hs|]. split; [reflexivity|]. split.
  - exact (C15_sources g u v ids Hs).
  - exact (C15_edge_sound g u v ids Hs).
Qed.
Print Assumptions C15_end_to_end.

Example C15_example :
  let g := fst (add_interaction (fst (add_interaction (fst (add_interaction (empty_graph false true) 1 2 (Some 0) None)) 2 3 (Some 1) None)) 1 3 (Some 2) None) in
  match temporal_dag g 1 None None None with
  | DagOk d => d_sources d = [Occ 1 0; Occ 1 2] /\ In (Occ 2 0, Occ 3 1) (d_edges d) /\ length (d_edges d) = 4%nat
  | _ => False
  end.
Proof. vm_compute. auto. Qed.
Print Assumptions C15_example.

(** the textual names "<node>_<tid>" of the occurrences (the model above uses pairs [Occ n t]): for ARBITRARY text ids
    -- underscores included -- the name determines the occurrence, temporal_dag's [name.rsplit("_",1)] recovers the
    node and time_respecting_paths' split / re-join recovers (node, time); a root id without underscore is never an
    occurrence name.  The decoder used before fix f2d9827 (text before the FIRST underscore) is right exactly for
    underscore-free ids. *)
Theorem C15_names_injective : forall n t n' t', occ_name n t = occ_name n' t' -> n = n' /\ t = t'.
Proof. exact occ_name_inj. Qed.
Print Assumptions C15_names_injective.
Theorem C15_names_decode : forall n t, name_node (occ_name n t) = Some n /\ decode_name (occ_name n t) = Some (n, t).
Proof. intros. split; [apply name_node_occ|apply decode_occ]. Qed.
Print Assumptions C15_names_decode.
Theorem C15_names_root : forall n t u, ~ In 95 u -> occ_name n t <> u.
Proof. exact occ_name_not_plain. Qed.
Print Assumptions C15_names_root.
Theorem C15_names_first_underscore : forall n t,
  (~ In 95 n -> name_node_first (occ_name n t) = n) /\ (In 95 n -> name_node_first (occ_name n t) <> n).
Proof. intros. split; [apply name_node_first_ok|apply name_node_first_wrong]. Qed.
Print Assumptions C15_names_first_underscore.
