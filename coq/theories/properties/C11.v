(** C11 - JSON node-link data round-trips class, nodes, attributes and presence (json.dumps/loads themselves
    are exercised by the harness, not modelled). *)
From DynVerif Require Import Base Graph Derived Spec Annotate IO.
From DynVerif.proofs Require Import CoreInv C01Facts QueryFacts DerivedFacts IOFacts.

(** node_link_data records directedness, lists every node (isolated ones included) with its attributes, the graph
    attributes, and exactly one link per interaction and present instant (the rows of C09_rows) *)
Theorem C11_data : forall g,
  nl_directed (node_link_data g) = Some (g_dir g) /\ nl_nodes (node_link_data g) = g_nodes g /\
  nl_graph (node_link_data g) = g_attr g /\ nl_links (node_link_data g) = gen_snapshots g.
Proof. intros. repeat split. Qed.
Print Assumptions C11_data.

Theorem C11_links : forall g u v t, GoodG g ->
  (In (u, v, t) (nl_links (node_link_data g)) <->
   In (u, v) (if g_dir g then out_interactions g None None else interactions g None None) /\ has_interaction g u v (Some t) = true) /\
  NoDup (nl_links (node_link_data g)).
Proof. intros. split; [apply gen_snapshots_spec|apply gen_snapshots_NoDup]; assumption. Qed.
Print Assumptions C11_links.

(** node_link_graph rebuilds a graph of the same class (whatever the 'directed' argument says), with the same
    nodes, node and graph attributes and presence relation *)
Theorem C11_roundtrip : forall g arg, GoodG g ->
  exists H, node_link_graph (node_link_data g) arg = RdOk H /\ g_dir H = g_dir g /\ g_nodes H = g_nodes g /\ g_attr H = g_attr g /\
            forall u v tau, has_interaction H u v (Some tau) = has_interaction g u v (Some tau).
Proof. exact node_link_roundtrip. Qed.
Print Assumptions C11_roundtrip.

(** the 'directed' argument is used only when the data does not say *)
Theorem C11_class : forall d arg H, node_link_graph d arg = RdOk H ->
  g_dir H = match nl_directed d with Some b => b | None => arg end.
Proof.
  intros d arg H. unfold node_link_graph.
  set (dir := match nl_directed d with Some b => b | None => arg end).
  set (g1 := fold_left _ _ _).
  assert (Hd : g_dir g1 = dir).
  { unfold g1. generalize (with_attr (empty_graph dir true) (nl_graph d)) (eq_refl : g_dir (with_attr (empty_graph dir true) (nl_graph d)) = dir).
    induction (nl_nodes d) as [|na r IH]; intros g0 Hg0; simpl; [exact Hg0|].
    apply IH. unfold add_node. destruct (amem Z.eqb (fst na) (g_nodes g0)); [destruct (snd na =? 0)|]; exact Hg0. }
  revert Hd. generalize g1. induction (nl_links d) as [|[[u v] t] r IH]; intros g0 Hd E; simpl in E.
  - inversion E; subst; exact Hd.
  - destruct (add_interaction g0 u v (Some t) None) as [g' o] eqn:Hs. destruct o; try discriminate.
    apply (IH g'); [|exact E]. pose proof (step_edges _ _ _ _ _ _ _ Hs) as Hst. cbv zeta in Hst. destruct Hst as (Hdir & _). congruence.
Qed.
Print Assumptions C11_class.

Example C11_example :
  let g := add_node (run_calls (G0 false) [mkCall 1 2 0 (Some 2)]) 9 5 in
  nl_nodes (node_link_data g) = [(1, 0); (2, 0); (9, 5)] /\ nl_links (node_link_data g) = [(1, 2, 0); (1, 2, 1)].
Proof. vm_compute. auto. Qed.
Print Assumptions C11_example.
