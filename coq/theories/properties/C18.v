(** C18 - Readers skip noise rows; timestamp compaction is an order-preserving bijection.
    Lines are lists of character codes; comment marker m and delimiter d are single characters (d = None:
    whitespace splitting); node and timestamp fields are decimal integers. *)
From DynVerif Require Import Base Graph Annotate IO.
From DynVerif.proofs Require Import AnnotateFacts IOFacts.
From DynVerif Require Import Derived Stats PySupportStats.
From DynVerif.gen Require Import PyGenStats.
From DynVerif.proofs Require Import PyGenStatsEq.

(** empty and comment-only lines are skipped; text after the comment marker is ignored *)
Theorem C18_comments : forall m d l rest,
  snap_line m d [] = LSkip /\ snap_line m d (m :: rest) = LSkip /\ int_line m d [] = LSkip /\ int_line m d (m :: rest) = LSkip /\
  (~ In m l -> l <> [] -> snap_line m d (l ++ m :: rest) = snap_line m d l /\ int_line m d (l ++ m :: rest) = int_line m d l).
Proof.
  intros. split; [apply snap_line_empty|]. split; [apply snap_line_comment_only|]. split; [apply int_line_empty|].
  split; [apply int_line_comment_only|]. intros H1 H2. split; [apply snap_line_trailing_comment|apply int_line_trailing_comment]; assumption.
Qed.
Print Assumptions C18_comments.

(** whitespace-only lines and rows with too few fields (< 3, resp. <> 4) are skipped: by computation on the
    grammar's representatives, for both splitting modes *)
Theorem C18_short_rows :
  snap_line 35 None [32; 9; 32] = LSkip /\ snap_line 35 (Some 44) [32; 32] = LSkip /\
  snap_line 35 None [49; 32; 50] = LSkip /\ snap_line 35 (Some 44) [49; 44; 50] = LSkip /\
  int_line 35 None [49; 32; 50; 32; 51] = LSkip /\ int_line 35 None [49; 32; 50; 32; 43; 32; 51; 32; 52] = LSkip.
Proof. vm_compute. repeat split; reflexivity. Qed.
Print Assumptions C18_short_rows.

(** the readers produce the same result as on the remaining (non-skipped) rows alone *)
Theorem C18_noise : forall m d keys ls g,
  read_snap_lines m d keys g ls = read_snap_lines m d keys g (filter (fun l => negb (snap_skipped m d l)) ls) /\
  read_int_lines m d keys g ls = read_int_lines m d keys g (filter (fun l => negb (int_skipped m d l)) ls).
Proof. intros. split; [apply read_snap_skip|apply read_int_skip]. Qed.
Print Assumptions C18_noise.

(** a node or timestamp field that cannot be converted raises TypeError when its row is reached *)
Theorem C18_type_error : forall m d keys g l ls,
  (snap_line m d l = LTypeError -> read_snap_lines m d keys g (l :: ls) = TxTypeError) /\
  (int_line m d l = LTypeError -> read_int_lines m d keys g (l :: ls) = TxTypeError).
Proof. intros. split; [apply read_snap_type_error|apply read_int_type_error]. Qed.
Print Assumptions C18_type_error.

(** compact_timeslot: a strictly increasing bijection from the distinct timestamps onto 0..k-1 *)
Theorem C18_compact : forall l, NoDup l ->
  (forall x, rank_of l x <> None <-> In x l) /\
  (forall x i, rank_of l x = Some i -> 0 <= i < Z.of_nat (length l)) /\
  (forall x y i j, rank_of l x = Some i -> rank_of l y = Some j -> (x < y <-> i < j)) /\
  (forall i, 0 <= i < Z.of_nat (length l) -> exists x, In x l /\ rank_of l x = Some i).
Proof.
  intros l Hn. split; [intros; apply rank_dom|]. split; [intros; eapply rank_range; eauto|].
  split; [intros; eapply rank_mono; eauto|intros; apply rank_surj; assumption].
Qed.
Print Assumptions C18_compact.

(** keys=True: every timestamp of a row is replaced by its rank among the distinct timestamps of the file's rows *)
Theorem C18_keys : forall dir m d ls,
  (existsb (bad_snap_stamp m d) ls = false ->
   read_snapshots_text dir m d true ls = read_snap_lines m d (Some (nodupZ (snap_stamps m d ls))) (empty_graph dir true) ls) /\
  read_snapshots_text dir m d false ls = read_snap_lines m d None (empty_graph dir true) ls.
Proof. intros. unfold read_snapshots_text. split; [intros ->; reflexivity|reflexivity]. Qed.
Print Assumptions C18_keys.

(** source-level tie: the Gallina text GENERATED from utils.transform.compact_timeslot (regenerated from /repo on every run) is the
    model function on duplicate-free lists (timestamps of a file are collected into a set first); with duplicates the dict
    comprehension keeps the LAST index of a value, the model one entry per position ([py_compact_timeslot_dup]) *)
Theorem C18_source_text : forall l, NoDup l -> py_compact_timeslot l = compact_timeslot l.
Proof. exact py_compact_timeslot_eq. Qed.
Print Assumptions C18_source_text.

Example C18_example :
  compact_timeslot [40; 7; 19] = [(7, 0); (19, 1); (40, 2)] /\
  snap_line 35 None [32; 49; 32; 50; 32; 32; 53; 35; 120] = LRow (1, 2, 5, None) /\
  snap_line 35 (Some 44) [49; 44; 120; 44; 53] = LTypeError.
Proof. vm_compute. auto. Qed.
Print Assumptions C18_example.
