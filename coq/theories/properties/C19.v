(** C19 - Untimed networkx mutators are blocked; frozen graphs are immutable.
    The Python check enumerates, by reflection on every run, every public callable inherited from the installed
    networkx and classifies it into the alphabet of [Api.api_op]; these theorems are about that alphabet. *)
From DynVerif Require Import Base Graph Spec Api.
From DynVerif.proofs Require Import CoreInv C03Facts QueryFacts SnapInv LogInv ApiFacts.

(** blocked mutators and blocked views raise NetworkXNotImplemented and leave the whole state untouched *)
Theorem C19_blocked_noop : forall g, api_step g OpBlocked = (g, ENotImplemented).
Proof. reflexivity. Qed.
Print Assumptions C19_blocked_noop.

(** no call sequence through the API can leave an adjacency entry without a (canonical, non-empty) timeline,
    an ill-formed adjacency, or -- on removal-enabled graphs -- the stream / snapshot counters out of step *)
Theorem C19_wf_closed : forall dir rem ops, WFG (run_api (empty_graph dir rem) ops).
Proof. intros. apply WFG_run, WFG_empty. Qed.
Print Assumptions C19_wf_closed.

(** PARTIAL (finding K-C19-1): on a frozen graph every mutator except add_interaction (and its bulk helpers)
    raises and leaves the graph unchanged ... *)
Theorem C19_frozen_partial : forall g o, g_frozen g = true ->
  (forall u v t e, o <> OpAdd u v t e) -> fst (api_step g o) = g \/ (o = OpFreeze /\ fst (api_step g o) = with_frozen g true).
Proof.
  intros g o Hf Hne. destruct o; simpl; try rewrite Hf; auto.
  exfalso. eapply Hne; reflexivity.
Qed.
Print Assumptions C19_frozen_partial.
(** ... the full statement is refuted: add_interaction still succeeds after freeze (pinned by a baseline test) *)
Theorem C19_frozen_refuted : exists g u v t, g_frozen g = true /\
  snd (api_step g (OpAdd u v (Some t) None)) = Done /\ fst (api_step g (OpAdd u v (Some t) None)) <> g.
Proof.
  exists (with_frozen (empty_graph false true) true), 1, 2, 0. split; [reflexivity|]. split; [vm_compute; reflexivity|].
  vm_compute. discriminate.
Qed.
Print Assumptions C19_frozen_refuted.

Theorem C19_is_frozen : forall g, g_frozen (fst (api_step g OpFreeze)) = true.
Proof. reflexivity. Qed.
Print Assumptions C19_is_frozen.

(** a cleared graph is a fresh graph: nothing of its earlier life survives clear() (nodes, adjacency, event log, snapshot
    counters, attributes), so every later call sequence behaves as on a new graph of the same class and mode;
    clear_edges() keeps exactly the nodes *)
Theorem C19_clear_fresh : forall g, g_frozen g = false -> clear g = empty_graph (g_dir g) (g_rem g).
Proof. intros g H. unfold clear, empty_graph. rewrite H. reflexivity. Qed.
Print Assumptions C19_clear_fresh.
Theorem C19_clear_then_calls : forall g cs, g_frozen g = false ->
  run_calls (clear g) cs = run_calls (empty_graph (g_dir g) (g_rem g)) cs.
Proof. intros g cs H. rewrite (C19_clear_fresh g H). reflexivity. Qed.
Print Assumptions C19_clear_then_calls.
Theorem C19_clear_edges_fresh : forall g,
  g_edges (clear_edges g) = [] /\ g_events (clear_edges g) = [] /\ g_snaps (clear_edges g) = [] /\
  g_nodes (clear_edges g) = g_nodes g /\ stream (clear_edges g) = [] /\ snapshot_ids (clear_edges g) = [] /\
  forall u v t, has_interaction (clear_edges g) u v t = false.
Proof. intros g. repeat split. Qed.
Print Assumptions C19_clear_edges_fresh.

Example C19_example :
  let g := run_api (empty_graph true true) [OpAdd 1 2 (Some 0) (Some 3); OpBlocked; OpAddNode 9 4; OpClearEdges; OpAdd 2 1 (Some 5) None; OpFreeze; OpClear] in
  node_ids g = [1; 2; 9] /\ akeys (g_edges g) = [(2, 1)] /\ map fst (g_snaps g) = [5] /\ g_frozen g = true.
Proof. vm_compute. auto. Qed.
Print Assumptions C19_example.
