(** C06 - time_slice keeps exactly the presence inside the window, in a new graph.
    [Good g]: removal-enabled, canonical timelines, well-formed adjacency -- true of every reachable graph
    ([C06_good_reachable]) and of every slice ([C06_slice_good]), so the theorems apply to slices of slices. *)
From DynVerif Require Import Base Graph Derived Spec.
From DynVerif Require Import Api.
From DynVerif.proofs Require Import CoreInv C01Facts C03Facts QueryFacts SliceFacts DerivedFacts ApiFacts ComposeFacts.

Theorem C06_good_reachable : forall dir cs, Good (run_calls (G0 dir) cs).
Proof. exact Good_reach. Qed.
Print Assumptions C06_good_reachable.

(** t_to < t_from raises ValueError; t_to omitted means t_from; a valid window always succeeds *)
Theorem C06_window : forall g a b,
  (b < a -> time_slice g a (Some b) = (None, EValue)) /\
  time_slice g a None = time_slice g a (Some a) /\
  (Good g -> a <= b -> exists H, time_slice g a (Some b) = (Some H, Done)).
Proof. intros. split; [apply slice_invalid|split; [apply slice_default|apply slice_ok]]. Qed.
Print Assumptions C06_window.

(** same class; present in H at t iff t is in the window and present in G at t *)
Theorem C06_presence : forall g a b H u v tau, Good g -> a <= b -> time_slice g a (Some b) = (Some H, Done) ->
  g_dir H = g_dir g /\ g_rem H = true /\
  has_interaction H u v (Some tau) = (a <=? tau) && (tau <=? b) && has_interaction g u v (Some tau).
Proof. exact slice_presence. Qed.
Print Assumptions C06_presence.

(** H's nodes are exactly the endpoints of the interactions present in the window, with G's attributes *)
Theorem C06_nodes : forall g a b H n, Good g -> a <= b -> time_slice g a (Some b) = (Some H, Done) ->
  (In n (node_ids H) <-> exists v tau, a <= tau <= b /\ (has_interaction g n v (Some tau) = true \/ has_interaction g v n (Some tau) = true)) /\
  (forall x, aget Z.eqb n (g_nodes H) = Some x -> aget Z.eqb n (g_nodes g) = Some x).
Proof. exact slice_nodes. Qed.
Print Assumptions C06_nodes.

(** H is itself well formed: Good (so C02's query theorems and C03's canonicity apply) and reachable by accepted
    add_interaction calls only (so the invariants behind C01, C03 hold for some history) *)
Theorem C06_slice_good : forall g a b H, Good g -> a <= b -> time_slice g a (Some b) = (Some H, Done) -> Good H /\ WF H.
Proof. intros. split; [eapply slice_good; eauto|eapply WF_time_slice; eauto]. Qed.
Print Assumptions C06_slice_good.

(** ... and every invariant behind C02-C05 holds on it ([WFG]: adjacency well formed, stream and snapshot counters in
    step with presence), whatever the source graph *)
Theorem C06_slice_wellformed : forall g a b H o, time_slice g a b = (Some H, o) -> WFG H.
Proof. exact WFG_time_slice. Qed.
Print Assumptions C06_slice_wellformed.

(** slicing a slice equals slicing by the intersection of the windows (at the level of presence) *)
Theorem C06_compose : forall g a b c d H1 H2 H3 u v tau, Good g -> a <= b -> c <= d -> Z.max a c <= Z.min b d ->
  time_slice g a (Some b) = (Some H1, Done) -> time_slice H1 c (Some d) = (Some H2, Done) ->
  time_slice g (Z.max a c) (Some (Z.min b d)) = (Some H3, Done) ->
  has_interaction H2 u v (Some tau) = has_interaction H3 u v (Some tau).
Proof. exact slice_compose. Qed.
Print Assumptions C06_compose.

(** ... and at the level of snapshot ids, per-snapshot counts, node set and node attributes; when the windows do
    not meet, the second slice is empty *)
Theorem C06_compose_ids : forall g a b c d H1 H2 H3, Good g -> a <= b -> c <= d -> Z.max a c <= Z.min b d ->
  time_slice g a (Some b) = (Some H1, Done) -> time_slice H1 c (Some d) = (Some H2, Done) ->
  time_slice g (Z.max a c) (Some (Z.min b d)) = (Some H3, Done) ->
  snapshot_ids H2 = snapshot_ids H3.
Proof. exact slice_compose_ids. Qed.
Print Assumptions C06_compose_ids.
Theorem C06_compose_counts : forall g a b c d H1 H2 H3, Good g -> a <= b -> c <= d -> Z.max a c <= Z.min b d ->
  time_slice g a (Some b) = (Some H1, Done) -> time_slice H1 c (Some d) = (Some H2, Done) ->
  time_slice g (Z.max a c) (Some (Z.min b d)) = (Some H3, Done) ->
  forall t, interactions_per_snapshot H2 t = interactions_per_snapshot H3 t.
Proof. exact slice_compose_counts. Qed.
Print Assumptions C06_compose_counts.
Theorem C06_compose_nodes : forall g a b c d H1 H2 H3, Good g -> a <= b -> c <= d -> Z.max a c <= Z.min b d ->
  time_slice g a (Some b) = (Some H1, Done) -> time_slice H1 c (Some d) = (Some H2, Done) ->
  time_slice g (Z.max a c) (Some (Z.min b d)) = (Some H3, Done) ->
  forall n, (In n (node_ids H2) <-> In n (node_ids H3)) /\ aget Z.eqb n (g_nodes H2) = aget Z.eqb n (g_nodes H3).
Proof.
  intros g a b c d H1 H2 H3 Hg Hab Hcd Hm E1 E2 E3 n. split.
  - exact (slice_compose_nodes g a b c d H1 H2 H3 Hg Hab Hcd Hm E1 E2 E3 n).
  - exact (slice_compose_attrs g a b c d H1 H2 H3 Hg Hab Hcd Hm E1 E2 E3 n).
Qed.
Print Assumptions C06_compose_nodes.
Theorem C06_compose_disjoint : forall g a b c d H1 H2, Good g -> a <= b -> c <= d -> Z.min b d < Z.max a c ->
  time_slice g a (Some b) = (Some H1, Done) -> time_slice H1 c (Some d) = (Some H2, Done) ->
  snapshot_ids H2 = [] /\ (forall u v tau, has_interaction H2 u v (Some tau) = false) /\ node_ids H2 = [].
Proof. exact slice_compose_disjoint. Qed.
Print Assumptions C06_compose_disjoint.

(** "G is observably unchanged" is immediate here: time_slice is a function of G.  On the Python side the
    harness re-observes G after every slice (validated, not proved). *)
Example C06_example :
  let g := run_calls (G0 true) [mkCall 1 2 0 (Some 5); mkCall 2 1 3 None; mkCall 2 3 7 (Some 9)] in
  match time_slice g 2 (Some 7) with
  | (Some H, Done) => map (fun t => has_interaction H 1 2 (Some t)) [1; 2; 4; 5] = [false; true; true; false] /\
                       node_ids H = [1; 2; 3] /\ has_interaction H 2 1 (Some 3) = true
  | _ => False
  end.
Proof. vm_compute. auto. Qed.
Print Assumptions C06_example.
