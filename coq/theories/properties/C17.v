(** C17 - Temporal statistics equal their stream-graph definitions.
    The model functions of Stats.v ARE the set-theoretic definitions over the presence relation ([has_node] /
    [has_interaction] at the snapshot ids), written as (numerator, denominator); the correspondence run compares
    them with the implementation as exact fractions.  Proved here: every ratio lies in [0,1], edge_contribution
    (computed by the code from run lengths) equals |T_uv| / |T|, node_presence, and the laws of the inter-event
    time histograms. *)
From DynVerif Require Import Base Graph Derived Spec Stats StatsSpec PySupportStats.
From DynVerif.gen Require Import PyGenStats.
From DynVerif.proofs Require Import CoreInv C01Facts QueryFacts SnapInv DerivedFacts StatsFacts StatsSpecFacts PyGenStatsEq.

(** the numerators and denominators ARE the set sizes of the stream-graph definitions: T = snapshot ids, T_u = node_presence u,
    T_uv = instants of the pair (counted over T) *)
Theorem C17_definitions : forall g u v,
  fst (node_contribution g u) = Z.of_nat (length (node_presence g u)) /\
  snd (node_contribution g u) = Z.of_nat (length (snap_keys g)) /\
  fst (node_pair_uniformity g u v) = Z.of_nat (length (filter (fun t => has_node g u (Some t) && has_node g v (Some t)) (snap_keys g))) /\
  snd (node_pair_uniformity g u v) = Z.of_nat (length (filter (fun t => has_node g u (Some t) || has_node g v (Some t)) (snap_keys g))) /\
  fst (coverage g) = sumZ (map (fun t => number_of_nodes g (Some t)) (snap_keys g)) /\
  snd (coverage g) = Z.of_nat (length (snap_keys g)) * Z.of_nat (length (g_nodes g)).
Proof.
  intros g u v. unfold node_contribution, node_pair_uniformity, coverage, node_presence, snap_keys, both_at, either_at. simpl.
  rewrite !count_if_length, !map_length. repeat split; reflexivity.
Qed.
Print Assumptions C17_definitions.

Theorem C17_unit_interval : forall g u v, InvAdj g ->
  0 <= fst (coverage g) <= snd (coverage g) /\
  0 <= fst (node_contribution g u) <= snd (node_contribution g u) /\
  0 <= fst (node_pair_uniformity g u v) <= snd (node_pair_uniformity g u v) /\
  0 <= fst (uniformity g) <= snd (uniformity g) /\
  0 <= fst (pair_density g u v) <= snd (pair_density g u v) /\
  0 <= fst (st_density g) <= snd (st_density g).
Proof.
  intros g u v HI.
  split; [apply coverage_unit; assumption|]. split; [apply node_contribution_unit|].
  split; [apply node_pair_uniformity_unit|]. split; [apply uniformity_unit|].
  split; [apply pair_density_unit; assumption|apply density_unit; assumption].
Qed.
Print Assumptions C17_unit_interval.

(** an interaction present at t makes both endpoints present at t (T_uv is a subset of T_u & T_v) *)
Theorem C17_interaction_both : forall g u v t, InvAdj g -> has_interaction g u v (Some t) = true -> both_at g u v t = true.
Proof. exact interaction_both. Qed.
Print Assumptions C17_interaction_both.

Theorem C17_node_presence : forall g u t, In t (node_presence g u) <-> In t (snap_keys g) /\ has_node g u (Some t) = true.
Proof. exact node_presence_spec. Qed.
Print Assumptions C17_node_presence.

(** edge_contribution = |T_uv| / |T| in every reachable removal-enabled state *)
Theorem C17_edge_contribution : forall dir cs u v,
  let g := run_calls (G0 dir) cs in
  match edge_contribution g u v with
  | None => has_interaction g u v None = false
  | Some (n, d) => n = count_if (fun t => has_interaction g u v (Some t)) (snap_keys g) /\ d = Z.of_nat (length (g_snaps g))
  end.
Proof.
  intros. apply edge_contribution_spec; [apply Good_reach|].
  apply (InvSnap_run cs (G0 dir) []); [reflexivity|apply Inv_init|apply InvSnap_init].
Qed.
Print Assumptions C17_edge_contribution.

(** ** The statistics equal their stream-graph definitions over the HISTORY (StatsSpec.v: [sp_*] are written with the
    presence relation [pres] of the accepted calls only; no graph state).  For every call sequence on a DynGraph
    ([g] the state reached, [h] the accepted calls): *)

(** the three sets of the definitions: T_uv, T_u (hence V_t), T and V are what the queries answer, and [snap_keys g] /
    [node_ids g] enumerate T and V without repetition *)
Theorem C17_spec_sets : forall cs,
  let g := run_calls (G0 false) cs in let h := accepted (G0 false) cs in
  (forall u v t, has_interaction g u v (Some t) = sp_pair h u v t) /\
  (forall u t, has_node g u (Some t) = sp_node h u t) /\
  enumerates (snap_keys g) (fun t => sp_inhabited h t = true) /\
  enumerates (node_ids g) (sp_is_node h).
Proof.
  intros cs. split; [exact (spec_pair cs)|]. split; [exact (spec_node cs)|]. split; [exact (spec_T cs)|exact (spec_V cs)].
Qed.
Print Assumptions C17_spec_sets.

(** coverage = sum_t |V_t| / (|T| |V|), node_contribution = |T_u| / |T|, edge_contribution = |T_uv| / |T| (KeyError
    exactly for a pair that never interacted), node_pair_uniformity = |T_u & T_v| / |T_u u T_v|, uniformity and density
    as sums over the unordered pairs of distinct nodes, pair_density = |T_uv| / |T_u & T_v| (0 on a zero denominator),
    node_presence = T_u, node_density as the code reads it (see StatsSpec) -- self-loops or not *)
Theorem C17_spec_ratios : forall cs,
  let g := run_calls (G0 false) cs in let h := accepted (G0 false) cs in
  let T := snap_keys g in let V := node_ids g in
  coverage g = sp_coverage h T V /\
  uniformity g = sp_uniformity h T V /\
  st_density g = sp_density h T V /\
  (forall u, node_contribution g u = sp_node_contribution h T u) /\
  (forall u, node_presence g u = sp_node_presence h T u) /\
  (forall u v, node_pair_uniformity g u v = sp_node_pair_uniformity h T u v) /\
  (forall u v, pair_density g u v = sp_pair_density h T u v) /\
  (forall u v, match edge_contribution g u v with
               | Some r => r = sp_edge_contribution h T u v
               | None => forall t, sp_pair h u v t = false end).
Proof.
  intros cs. split; [exact (spec_coverage cs)|]. split; [exact (spec_uniformity cs)|]. split; [exact (spec_density cs)|].
  split; [exact (spec_node_contribution cs)|]. split; [exact (spec_node_presence cs)|].
  split; [exact (spec_node_pair_uniformity cs)|]. split; [exact (spec_pair_density cs)|exact (spec_edge_contribution cs)].
Qed.
Print Assumptions C17_spec_ratios.

(** avg_number_of_nodes = sum_t |V_t| / |T| over the ascending snapshot ids *)
Theorem C17_spec_avg : forall cs,
  let g := run_calls (G0 false) cs in let h := accepted (G0 false) cs in
  fst (avg_number_of_nodes g) = fst (sp_avg_number_of_nodes h (snapshot_ids g) (node_ids g)) /\
  snd (avg_number_of_nodes g) = snd (sp_avg_number_of_nodes h (snapshot_ids g) (node_ids g)) /\
  enumerates (snapshot_ids g) (fun t => sp_inhabited h t = true).
Proof. exact spec_avg_number_of_nodes. Qed.
Print Assumptions C17_spec_avg.

(** node_density and, on graphs without self-loops (the property's quantifier), snapshot_density(t) = 2 m_t / (n_t (n_t - 1)) at
    every t, inhabited or not *)
Theorem C17_spec_node_density : forall cs u, no_loops cs ->
  let g := run_calls (G0 false) cs in let h := accepted (G0 false) cs in
  node_density g u = sp_node_density h (snap_keys g) (node_ids g) u.
Proof. intros cs u H. exact (spec_node_density cs H u). Qed.
Print Assumptions C17_spec_node_density.
Theorem C17_spec_snapshot_density : forall cs t, no_loops cs ->
  let g := run_calls (G0 false) cs in let h := accepted (G0 false) cs in
  snapshot_density g t = Some (sp_snapshot_density h (node_ids g) t).
Proof. intros cs t H. exact (spec_snapshot_density cs H t). Qed.
Print Assumptions C17_spec_snapshot_density.

(** ** Source-level tie.  [py_*] (gen/PyGenStats.v) are GENERATED from the Python text of DynGraph.coverage, node_contribution, ...
    by tools/py2gallina_stats.py (statement by statement: loops = fold_left over the iterated list, the assigned variables as
    state); they are regenerated from /repo on every check run and these equalities re-checked (harness/sourcetie.py).  The
    model functions the theorems above speak about ARE what the code's text says, for every graph state: *)
Theorem C17_source_text : forall g u v, InvSnap g ->
  py_coverage g = coverage g /\ py_uniformity g = uniformity g /\ py_density g = st_density g /\
  py_node_contribution g u = node_contribution g u /\ py_edge_contribution g u v = edge_contribution g u v /\
  py_node_pair_uniformity g u v = node_pair_uniformity g u v /\ py_pair_density g u v = pair_density g u v /\
  py_node_density g u = node_density g u /\ py_node_presence g u = node_presence g u /\
  py_avg_number_of_nodes g = avg_number_of_nodes g.
Proof.
  intros g u v HS. split; [apply py_coverage_eq|]. split; [apply py_uniformity_eq|]. split; [apply py_density_eq|].
  split; [apply py_node_contribution_eq|]. split; [apply py_edge_contribution_eq|].
  split; [apply py_node_pair_uniformity_eq; exact HS|]. split; [apply py_pair_density_eq|].
  split; [apply py_node_density_eq; exact HS|]. split; [apply py_node_presence_eq; exact HS|apply py_avg_number_of_nodes_eq].
Qed.
Print Assumptions C17_source_text.
(** ... and [InvSnap] holds in every reachable state (C04), so on reachable graphs the code's text = the stream-graph definitions *)
Theorem C17_source_to_spec : forall cs,
  let g := run_calls (G0 false) cs in let h := accepted (G0 false) cs in
  py_coverage g = sp_coverage h (snap_keys g) (node_ids g) /\
  py_uniformity g = sp_uniformity h (snap_keys g) (node_ids g) /\
  py_density g = sp_density h (snap_keys g) (node_ids g) /\
  (forall u, py_node_contribution g u = sp_node_contribution h (snap_keys g) u) /\
  (forall u v, py_node_pair_uniformity g u v = sp_node_pair_uniformity h (snap_keys g) u v) /\
  (forall u v, py_pair_density g u v = sp_pair_density h (snap_keys g) u v).
Proof.
  intros cs. cbv zeta.
  assert (HS : InvSnap (run_calls (G0 false) cs)) by (apply (InvSnap_run cs (G0 false) []); [reflexivity|apply Inv_init|apply InvSnap_init]).
  split; [rewrite py_coverage_eq; exact (spec_coverage cs)|]. split; [rewrite py_uniformity_eq; exact (spec_uniformity cs)|].
  split; [rewrite py_density_eq; exact (spec_density cs)|].
  split; [intros u; rewrite py_node_contribution_eq; exact (spec_node_contribution cs u)|].
  split; [intros u v; rewrite (py_node_pair_uniformity_eq _ u v HS); exact (spec_node_pair_uniformity cs u v)|].
  intros u v; rewrite py_pair_density_eq; exact (spec_pair_density cs u v).
Qed.
Print Assumptions C17_source_to_spec.

(** inter-event time distributions (global / per node / in / out): total mass = #events - 1, weighted sum =
    last - first event time; each key's count is its number of occurrences among the gaps *)
Theorem C17_iet : forall g sel u,
  let ts := iet_times g sel u in
  sumZ (map snd (inter_event_time_distribution g sel u)) = Z.of_nat (length ts - 1) /\
  sumZ (map (fun kc => fst kc * snd kc) (inter_event_time_distribution g sel u)) = last ts 0 - hd 0 ts /\
  (forall k c, In (k, c) (inter_event_time_distribution g sel u) -> c = Z.of_nat (length (filter (Z.eqb k) (gaps ts)))) /\
  (forall k, In k (map fst (inter_event_time_distribution g sel u)) <-> In k (gaps ts)).
Proof.
  intros g sel u ts. destruct (iet_laws g sel u) as (H1 & H2). split; [exact H1|]. split; [exact H2|].
  split; [intros k c; apply histogram_count|intros k; apply histogram_keys].
Qed.
Print Assumptions C17_iet.

Example C17_example :
  let g := run_calls (G0 false) [mkCall 1 2 0 (Some 3); mkCall 2 3 1 None; mkCall 1 2 5 None] in
  coverage g = (9, 12) /\ edge_contribution g 2 1 = Some (4, 4) /\ node_pair_uniformity g 1 3 = (1, 4) /\
  inter_event_time_distribution g 0 0 = [(1, 1); (2, 2)].
Proof. vm_compute. auto. Qed.
Print Assumptions C17_example.

Example C17_spec_example :
  let cs := [mkCall 1 2 0 (Some 3); mkCall 2 3 1 None; mkCall 1 2 5 None; mkCall 3 1 2 (Some 2); mkCall 1 2 4 None] in
  let h := accepted (G0 false) cs in
  no_loops cs /\ length h = 4%nat /\
  sp_coverage h [0; 1; 2; 5] [1; 2; 3] = (9, 12) /\ sp_density h [0; 1; 2; 5] [1; 2; 3] = (5, 6) /\
  sp_uniformity h [0; 1; 2; 5] [1; 2; 3] = (6, 12) /\ sp_snapshot_density h [1; 2; 3] 1 = (4, 6).
Proof. split; [intros c [E|[E|[E|[E|[E|[]]]]]]; subst c; discriminate|]. vm_compute. auto. Qed.
Print Assumptions C17_spec_example.
