(** C17 - Temporal statistics equal their stream-graph definitions.
    The model functions of Stats.v ARE the set-theoretic definitions over the presence relation ([has_node] /
    [has_interaction] at the snapshot ids), written as (numerator, denominator); the correspondence run compares
    them with the implementation as exact fractions.  Proved here: every ratio lies in [0,1], edge_contribution
    (computed by the code from run lengths) equals |T_uv| / |T|, node_presence, and the laws of the inter-event
    time histograms. *)
From DynVerif Require Import Base Graph Derived Spec Stats.
From DynVerif.proofs Require Import CoreInv C01Facts QueryFacts SnapInv DerivedFacts StatsFacts.

(** the numerators and denominators ARE the set sizes of the stream-graph definitions: T = snapshot ids, T_u = node_presence u,
    T_uv = instants of the pair (counted over T) *)
Theorem C17_definitions : forall g u v,
  fst (node_contribution g u) = Z.of_nat (length (node_presence g u)) /\
  snd (node_contribution g u) = Z.of_nat (length (snap_keys g)) /\
  fst (node_pair_uniformity g u v) = Z.of_nat (length (filter (fun t => has_node g u (Some t) && has_node g v (Some t)) (snap_keys g))) /\
  snd (node_pair_uniformity g u v) = Z.of_nat (length (filter (fun t => has_node g u (Some t) || has_node g v (Some t)) (snap_keys g))) /\
  fst (coverage g) = sumZ (map (fun t => number_of_nodes g (Some t)) (snap_keys g)) /\
  snd (coverage g) = Z.of_nat (length (snap_keys g)) * Z.of_nat (length (g_nodes g)).
Proof.
  intros g u v. unfold node_contribution, node_pair_uniformity, coverage, node_presence, snap_keys, both_at, either_at. simpl.
  rewrite !count_if_length, !map_length. repeat split; reflexivity.
Qed.
Print Assumptions C17_definitions.

Theorem C17_unit_interval : forall g u v, InvAdj g ->
  0 <= fst (coverage g) <= snd (coverage g) /\
  0 <= fst (node_contribution g u) <= snd (node_contribution g u) /\
  0 <= fst (node_pair_uniformity g u v) <= snd (node_pair_uniformity g u v) /\
  0 <= fst (uniformity g) <= snd (uniformity g) /\
  0 <= fst (pair_density g u v) <= snd (pair_density g u v) /\
  0 <= fst (st_density g) <= snd (st_density g).
Proof.
  intros g u v HI.
  split; [apply coverage_unit; assumption|]. split; [apply node_contribution_unit|].
  split; [apply node_pair_uniformity_unit|]. split; [apply uniformity_unit|].
  split; [apply pair_density_unit; assumption|apply density_unit; assumption].
Qed.
Print Assumptions C17_unit_interval.

(** an interaction present at t makes both endpoints present at t (T_uv is a subset of T_u & T_v) *)
Theorem C17_interaction_both : forall g u v t, InvAdj g -> has_interaction g u v (Some t) = true -> both_at g u v t = true.
Proof. exact interaction_both. Qed.
Print Assumptions C17_interaction_both.

Theorem C17_node_presence : forall g u t, In t (node_presence g u) <-> In t (snap_keys g) /\ has_node g u (Some t) = true.
Proof. exact node_presence_spec. Qed.
Print Assumptions C17_node_presence.

(** edge_contribution = |T_uv| / |T| in every reachable removal-enabled state *)
Theorem C17_edge_contribution : forall dir cs u v,
  let g := run_calls (G0 dir) cs in
  match edge_contribution g u v with
  | None => has_interaction g u v None = false
  | Some (n, d) => n = count_if (fun t => has_interaction g u v (Some t)) (snap_keys g) /\ d = Z.of_nat (length (g_snaps g))
  end.
Proof.
  intros. apply edge_contribution_spec; [apply Good_reach|].
  apply (InvSnap_run cs (G0 dir) []); [reflexivity|apply Inv_init|apply InvSnap_init].
Qed.
Print Assumptions C17_edge_contribution.

(** inter-event time distributions (global / per node / in / out): total mass = #events - 1, weighted sum =
    last - first event time; each key's count is its number of occurrences among the gaps *)
Theorem C17_iet : forall g sel u,
  let ts := iet_times g sel u in
  sumZ (map snd (inter_event_time_distribution g sel u)) = Z.of_nat (length ts - 1) /\
  sumZ (map (fun kc => fst kc * snd kc) (inter_event_time_distribution g sel u)) = last ts 0 - hd 0 ts /\
  (forall k c, In (k, c) (inter_event_time_distribution g sel u) -> c = Z.of_nat (length (filter (Z.eqb k) (gaps ts)))) /\
  (forall k, In k (map fst (inter_event_time_distribution g sel u)) <-> In k (gaps ts)).
Proof.
  intros g sel u ts. destruct (iet_laws g sel u) as (H1 & H2). split; [exact H1|]. split; [exact H2|].
  split; [intros k c; apply histogram_count|intros k; apply histogram_keys].
Qed.
Print Assumptions C17_iet.

Example C17_example :
  let g := run_calls (G0 false) [mkCall 1 2 0 (Some 3); mkCall 2 3 1 None; mkCall 1 2 5 None] in
  coverage g = (9, 12) /\ edge_contribution g 2 1 = Some (4, 4) /\ node_pair_uniformity g 1 3 = (1, 4) /\
  inter_event_time_distribution g 0 0 = [(1, 1); (2, 2)].
Proof. vm_compute. auto. Qed.
Print Assumptions C17_example.
