(** C16 - Directed/undirected conversion preserves presence and isolates the copy. *)
From DynVerif Require Import Base Graph Derived Spec.
From DynVerif Require Import Api.
From DynVerif.proofs Require Import CoreInv C01Facts C03Facts QueryFacts SliceFacts DerivedFacts ApiFacts DerivedFacts2.

(** to_undirected(): {u,v} present at t iff u->v or v->u present at t; every node kept with its attributes *)
Theorem C16_undirected : forall g, Good g -> g_dir g = true ->
  exists H, to_undirected g false = (Some H, Done) /\
    g_dir H = false /\ g_nodes H = g_nodes g /\ g_attr H = g_attr g /\ WF H /\
    forall u v tau, has_interaction H u v (Some tau) = has_interaction g u v (Some tau) || has_interaction g v u (Some tau).
Proof.
  intros g Hg Hd. destruct (undirected_ok g Hg Hd) as (H & E). exists H. split; [exact E|].
  destruct (undirected_presence g H 0 0 0 Hg Hd E) as (H1 & H2 & H3 & _).
  repeat split; auto; [eapply WF_to_undirected; eauto|].
  intros u v tau. apply (undirected_presence g H u v tau Hg Hd E).
Qed.
Print Assumptions C16_undirected.

(** to_undirected(reciprocal=True): {u,v} present at t iff BOTH u->v and v->u are present at t *)
Theorem C16_reciprocal : forall g, Good g -> g_dir g = true ->
  exists H, to_undirected g true = (Some H, Done) /\
    g_dir H = false /\ g_nodes H = g_nodes g /\ g_attr H = g_attr g /\
    forall u v tau, has_interaction H u v (Some tau) = has_interaction g u v (Some tau) && has_interaction g v u (Some tau).
Proof.
  intros g Hg Hd. destruct (reciprocal_ok g Hg Hd) as (H & E). exists H. split; [exact E|].
  destruct (reciprocal_presence g H 0 0 0 Hg Hd E) as (H1 & H2 & H3 & _).
  split; [exact H1|]. split; [exact H2|]. split; [exact H3|].
  intros u v tau. apply (reciprocal_presence g H u v tau Hg Hd E).
Qed.
Print Assumptions C16_reciprocal.

(** both conversions return a well-formed graph: every invariant behind C02-C05 ([WFG]: canonical timelines reachable
    by accepted adds, well-formed adjacency, stream and snapshot counters in step with presence) holds on the result *)
Theorem C16_wellformed : forall g, InvAdj g ->
  (forall H o, to_directed g = (Some H, o) -> WFG H) /\ (forall r H o, to_undirected g r = (Some H, o) -> WFG H).
Proof. intros g HI. split; intros; [eapply WFG_to_directed|eapply WFG_to_undirected]; eauto. Qed.
Print Assumptions C16_wellformed.

(** to_directed(): PARTIAL (finding K-C16-1, pinned by test_conversion): the result is sound and holds every
    undirected interaction under at least one orientation ... *)
Theorem C16_directed_partial : forall g, Good g -> g_dir g = false ->
  exists H, to_directed g = (Some H, Done) /\
    g_dir H = true /\ g_nodes H = g_nodes g /\ g_attr H = g_attr g /\ WF H /\
    forall u v tau,
      (has_interaction H u v (Some tau) = true -> has_interaction g u v (Some tau) = true) /\
      (has_interaction g u v (Some tau) = true -> has_interaction H u v (Some tau) = true \/ has_interaction H v u (Some tau) = true).
Proof.
  intros g Hg Hd. destruct (directed_ok g Hg Hd) as (H & E). exists H. split; [exact E|].
  destruct (directed_presence_partial g H 0 0 0 Hg Hd E) as (H1 & H2 & H3 & _).
  repeat split; auto; try (eapply WF_to_directed; eauto);
    destruct (directed_presence_partial g H u v tau Hg Hd E) as (_ & _ & _ & Ha & Hb); auto.
Qed.
Print Assumptions C16_directed_partial.
(** ... but NOT under both: the full statement is refuted *)
Theorem C16_directed_refuted : exists g H u v tau, Good g /\ g_dir g = false /\ to_directed g = (Some H, Done) /\
  has_interaction g u v (Some tau) = true /\ has_interaction H v u (Some tau) = false.
Proof.
  exists (run_calls (G0 false) [mkCall 1 2 0 None]).
  eexists. exists 1, 2, 0. split; [apply Good_reach|]. split; [reflexivity|]. split; [vm_compute; reflexivity|].
  split; vm_compute; reflexivity.
Qed.
Print Assumptions C16_directed_refuted.

(** the source is a value: conversion cannot change it (deep-copy isolation on the Python side is validated by
    mutating the result's attribute values and re-observing the source) *)
Example C16_example :
  let g := run_calls (G0 true) [mkCall 1 2 0 (Some 3); mkCall 2 1 2 (Some 6); mkCall 3 3 1 None] in
  match to_undirected g false, to_undirected g true with
  | (Some H, Done), (Some R, Done) =>
      map (fun t => has_interaction H 2 1 (Some t)) [0; 2; 5; 6] = [true; true; true; false] /\
      map (fun t => has_interaction R 1 2 (Some t)) [1; 2; 3] = [false; true; false] /\
      has_interaction H 3 3 (Some 1) = true
  | _, _ => False
  end.
Proof. vm_compute. auto. Qed.
Print Assumptions C16_example.
