(** C20 - Delta-conformity is bounded, relabelling-invariant, consistent when sliding.
    Model over exact rationals, for static categorical labels without hierarchies; [alpha] a non-negative integer
    exponent (weight of rank d = 1 / d^alpha). *)
From Coq Require Import QArith.
From DynVerif Require Import Base Graph Derived Annotate Paths Conformity Spec Rename.
From DynVerif.proofs Require Import C01Facts DerivedFacts ConfFacts RenameCore RenamePaths RenameConf RenameInjCore RenameInjPaths RenameInjConf ConfEndToEnd.
#[local] Open Scope Z_scope.

(** every score lies in [-1, 1] *)
Theorem C20_bounded : forall g tabs alpha u tdist, 0 <= alpha -> (-1 <= node_score g tabs alpha u tdist <= 1)%Q.
Proof. exact node_score_bounded. Qed.
Print Assumptions C20_bounded.

(** scores exactly for the nodes present at start within the window, for every alpha and every profile;
    None when the window holds no snapshot *)
Theorem C20_domain : forall dg start delta alphas tabs psize ptype l,
  delta_conformity dg start delta alphas tabs psize ptype = ConfOk l ->
  exists g, fst (time_slice dg start (Some (start + delta))) = Some g /\ map fst l = alphas /\
    forall alpha profs, In (alpha, profs) l ->
      length profs = length (profiles tabs psize) /\ forall scores, In scores profs -> map fst scores = nodes_at g start.
Proof. exact conformity_domain. Qed.
Print Assumptions C20_domain.
Theorem C20_none : forall dg start delta alphas tabs psize ptype g,
  (length tabs <? psize)%nat || (length alphas =? 0)%nat || (length tabs =? 0)%nat = false ->
  fst (time_slice dg start (Some (start + delta))) = Some g -> snapshot_ids g = [] ->
  delta_conformity dg start delta alphas tabs psize ptype = ConfNone.
Proof. exact conformity_none. Qed.
Print Assumptions C20_none.

(** when all nodes share one label value: 1 for a node that reaches another node, 0 for a node that reaches none
    ([tdist] = the node's table of reached nodes) *)
Theorem C20_same_label : forall g tabs alpha u tdist, 0 <= alpha ->
  (forall tab n, In tab tabs -> lab tab n = lab tab u) ->
  (node_score g tabs alpha u tdist == (if match tdist with [] => true | _ => false end then 0 else 1))%Q.
Proof. exact node_score_same_label. Qed.
Print Assumptions C20_same_label.

(** invariance under renaming label values: only equality of values is ever used.  For every injective renaming f
    that fixes the default value 0 (the value [lab] answers for a node missing from the table), or for any injective
    f when every node involved is in the table, each label factor -- hence every score -- is unchanged.  (Without
    either side condition the statement is false in the model: ConfFacts.label_factor_renaming_counterexample; the
    implementation raises KeyError for a node without the label, so the case does not arise there.) *)
Theorem C20_label_renaming : forall g tab (f : Z -> Z) u nodes tdist,
  (forall a b, f a = f b -> a = b) ->
  (f 0 = 0 \/ forall n, In n (u :: nodes ++ flat_map (nbr_of g tdist) nodes) -> In n (map fst tab)) ->
  label_factor g (map (fun nv => (fst nv, f (snd nv))) tab) u nodes tdist = label_factor g tab u nodes tdist.
Proof.
  intros g tab f u nodes tdist Hinj [H0|Hin]; [apply label_factor_renaming_alt|apply label_factor_renaming_alt2]; assumption.
Qed.
Print Assumptions C20_label_renaming.

(** sliding_delta_conformity reports, for every snapshot id t with t + delta before the last id, exactly
    delta_conformity(G, t, delta, ...) stamped t + delta *)
Theorem C20_sliding : forall dg delta alphas tabs psize ptype,
  sliding_delta_conformity dg delta alphas tabs psize ptype =
  flat_map (fun t => if t + delta <? last (snapshot_ids dg) 0
                     then [(t + delta, delta_conformity dg t delta alphas tabs psize ptype)] else []) (snapshot_ids dg).
Proof. exact sliding_pointwise. Qed.
Print Assumptions C20_sliding.

(** The same three facts about the RESULT of delta_conformity (every score of every alpha, profile and node): *)
Theorem C20_result_bounded : forall dg start delta alphas tabs psize ptype l,
  (forall a, In a alphas -> 0 <= a) ->
  delta_conformity dg start delta alphas tabs psize ptype = ConfOk l ->
  forall alpha profs scores n q, In (alpha, profs) l -> In scores profs -> In (n, q) scores -> (-1 <= q <= 1)%Q.
Proof. exact conformity_bounded. Qed.
Print Assumptions C20_result_bounded.
(** renaming label values along an injective h fixing the default value 0 (or any injective h when every node of the
    graph is labelled: [C20_result_label_renaming_total]) leaves the whole result unchanged *)
Theorem C20_result_label_renaming : forall (h : Z -> Z) dg start delta alphas tabs psize ptype,
  (forall a b, h a = h b -> a = b) -> h 0 = 0 ->
  delta_conformity dg start delta alphas (map (fun tab => map (fun nv => (fst nv, h (snd nv))) tab) tabs) psize ptype
  = delta_conformity dg start delta alphas tabs psize ptype.
Proof. exact conformity_label_renaming. Qed.
Print Assumptions C20_result_label_renaming.
Theorem C20_result_label_renaming_total : forall (h : Z -> Z) dg start delta alphas tabs psize ptype,
  (forall a b, h a = h b -> a = b) -> Good dg ->
  (forall tab n, In tab tabs -> In n (node_ids dg) -> In n (map fst tab)) ->
  delta_conformity dg start delta alphas (map (fun tab => map (fun nv => (fst nv, h (snd nv))) tab) tabs) psize ptype
  = delta_conformity dg start delta alphas tabs psize ptype.
Proof. exact conformity_label_renaming_total_source. Qed.
Print Assumptions C20_result_label_renaming_total.
(** one shared label: every score is 1 or 0 -- 1 exactly for the nodes one of whose time-respecting paths in the
    window ends in another node *)
Theorem C20_result_same_label : forall dg start delta alphas tabs psize ptype l,
  (forall a, In a alphas -> 0 <= a) ->
  (forall tab n m, In tab tabs -> lab tab n = lab tab m) ->
  delta_conformity dg start delta alphas tabs psize ptype = ConfOk l ->
  exists g sp, conf_setup dg start delta g sp /\
  forall alpha profs scores n q, In (alpha, profs) l -> In scores profs -> In (n, q) scores ->
    ((q == 1)%Q <-> exists p, In p (paths_of n sp) /\ last_node p <> n) /\
    ((q == 0)%Q <-> ~ exists p, In p (paths_of n sp) /\ last_node p <> n) /\
    (forall s e, all_time_respecting_paths g s e None = Some sp -> time_respecting_paths g n None s e = PathsOk (paths_of n sp)).
Proof.
  intros dg start delta alphas tabs psize ptype l Ha Hl H.
  destruct (conformity_same_label_which dg start delta alphas tabs psize ptype l Ha Hl H) as (g & sp & Hs & Hall).
  exists g, sp. split; [exact Hs|]. intros alpha profs scores n q H1 H2 H3.
  destruct (Hall alpha profs scores n q H1 H2 H3) as (A & B & C & D).
  split; [rewrite A; exact C|]. split; [|exact D].
  rewrite B. rewrite <- C. split; [intros E F; apply F; exact E|].
  intros E. destruct (t_distances ptype n (paths_of n sp)) eqn:Et; [reflexivity|]. exfalso. apply E. discriminate.
Qed.
Print Assumptions C20_result_same_label.
Theorem C20_result_sliding_bounded : forall dg delta alphas tabs psize ptype, (forall a, In a alphas -> 0 <= a) ->
  forall t l, In (t, ConfOk l) (sliding_delta_conformity dg delta alphas tabs psize ptype) ->
  forall alpha profs scores n q, In (alpha, profs) l -> In scores profs -> In (n, q) scores -> (-1 <= q <= 1)%Q.
Proof. exact conformity_sliding_bounded. Qed.
Print Assumptions C20_result_sliding_bounded.

(** invariance under renaming NODE ids, for EVERY injective renaming f: the graph built by the renamed calls, with
    the label tables re-keyed, gets the original result with the node keys renamed, score for score (Leibniz
    equality of the reduced fractions).  The whole pipeline is equivariant: add_interaction, every query, time_slice
    ([RenameInjCore]), temporal_dag, the path search, the annotation ([RenameInjPaths]), ranks, label frequencies,
    scores ([RenameInjConf]).  [renI f g] renames the endpoints in a graph state and re-normalises the keys of
    undirected pairs (the model stores them under (min, max)); it IS the graph built by the renamed calls
    ([C20_renaming_builds]).  [keys_norm] (stored keys in normal form) holds of every reachable graph and slice. *)
Theorem C20_node_renaming : forall f, inj f -> forall dir cs start delta alphas tabs psize ptype,
  delta_conformity (run_calls (G0 dir) (map (ren_call f) cs)) start delta alphas (map (ren_tab f) tabs) psize ptype
  = ren_conf f (delta_conformity (run_calls (G0 dir) cs) start delta alphas tabs psize ptype).
Proof. exact delta_conformity_renamed_calls. Qed.
Print Assumptions C20_node_renaming.
Theorem C20_node_renaming_state : forall f, inj f -> forall g, keys_norm g -> forall start delta alphas tabs psize ptype,
  delta_conformity (renI f g) start delta alphas (map (ren_tab f) tabs) psize ptype
  = ren_conf f (delta_conformity g start delta alphas tabs psize ptype).
Proof. exact renI_delta_conformity. Qed.
Print Assumptions C20_node_renaming_state.
Theorem C20_node_renaming_sliding : forall f, inj f -> forall g, keys_norm g -> forall delta alphas tabs psize ptype,
  sliding_delta_conformity (renI f g) delta alphas (map (ren_tab f) tabs) psize ptype
  = map (fun tr => (fst tr, ren_conf f (snd tr))) (sliding_delta_conformity g delta alphas tabs psize ptype).
Proof. exact renI_sliding_delta_conformity. Qed.
Print Assumptions C20_node_renaming_sliding.
Theorem C20_renaming_builds : forall f, inj f -> forall dir cs,
  renI f (run_calls (G0 dir) cs) = run_calls (G0 dir) (map (ren_call f) cs) /\ keys_norm (run_calls (G0 dir) cs).
Proof. intros f Hf dir cs. split; [apply renI_reach; exact Hf|apply keys_norm_reach]. Qed.
Print Assumptions C20_renaming_builds.
Example C20_renaming_example :
  let f := fun x => 10 - x in                               (* order-reversing *)
  let cs := [mkCall 1 2 0 None; mkCall 2 3 1 None] in
  map (ren_call f) cs = [mkCall 9 8 0 None; mkCall 8 7 1 None] /\
  delta_conformity (run_calls (G0 false) (map (ren_call f) cs)) 0 2 [1] [[(9, 0); (8, 0); (7, 1)]] 1 0
  = ren_conf f (delta_conformity (run_calls (G0 false) cs) 0 2 [1] [[(1, 0); (2, 0); (3, 1)]] 1 0).
Proof. vm_compute. auto. Qed.
Print Assumptions C20_renaming_example.

Example C20_example :
  let g := fst (add_interaction (fst (add_interaction (empty_graph false true) 1 2 (Some 0) None)) 2 3 (Some 1) None) in
  match delta_conformity g 0 2 [1] [[(1, 0); (2, 0); (3, 1)]] 1 0 with
  | ConfOk [(1, [[(1, q1); (2, q2)]])] => Qeq q1 (1 # 3) /\ Qeq q2 0
  | _ => False
  end.
Proof. vm_compute. auto. Qed.
Print Assumptions C20_example.
