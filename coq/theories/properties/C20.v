(** C20 - Delta-conformity is bounded, relabelling-invariant, consistent when sliding.
    Model over exact rationals, for static categorical labels without hierarchies; [alpha] a non-negative integer
    exponent (weight of rank d = 1 / d^alpha). *)
From Coq Require Import QArith.
From DynVerif Require Import Base Graph Derived Annotate Paths Conformity.
From DynVerif.proofs Require Import ConfFacts.
#[local] Open Scope Z_scope.

(** every score lies in [-1, 1] *)
Theorem C20_bounded : forall g tabs alpha u tdist, 0 <= alpha -> (-1 <= node_score g tabs alpha u tdist <= 1)%Q.
Proof. exact node_score_bounded. Qed.
Print Assumptions C20_bounded.

(** scores exactly for the nodes present at start within the window, for every alpha and every profile;
    None when the window holds no snapshot *)
Theorem C20_domain : forall dg start delta alphas tabs psize ptype l,
  delta_conformity dg start delta alphas tabs psize ptype = ConfOk l ->
  exists g, fst (time_slice dg start (Some (start + delta))) = Some g /\ map fst l = alphas /\
    forall alpha profs, In (alpha, profs) l ->
      length profs = length (profiles tabs psize) /\ forall scores, In scores profs -> map fst scores = nodes_at g start.
Proof. exact conformity_domain. Qed.
Print Assumptions C20_domain.
Theorem C20_none : forall dg start delta alphas tabs psize ptype g,
  (length tabs <? psize)%nat || (length alphas =? 0)%nat || (length tabs =? 0)%nat = false ->
  fst (time_slice dg start (Some (start + delta))) = Some g -> snapshot_ids g = [] ->
  delta_conformity dg start delta alphas tabs psize ptype = ConfNone.
Proof. exact conformity_none. Qed.
Print Assumptions C20_none.

(** when all nodes share one label value: 1 for a node that reaches another node, 0 for a node that reaches none
    ([tdist] = the node's table of reached nodes) *)
Theorem C20_same_label : forall g tabs alpha u tdist, 0 <= alpha ->
  (forall tab n, In tab tabs -> lab tab n = lab tab u) ->
  (node_score g tabs alpha u tdist == (if match tdist with [] => true | _ => false end then 0 else 1))%Q.
Proof. exact node_score_same_label. Qed.
Print Assumptions C20_same_label.

(** invariance under renaming label values: only equality of values is ever used.  For every injective renaming f
    that fixes the default value 0 (the value [lab] answers for a node missing from the table), or for any injective
    f when every node involved is in the table, each label factor -- hence every score -- is unchanged.  (Without
    either side condition the statement is false in the model: ConfFacts.label_factor_renaming_counterexample; the
    implementation raises KeyError for a node without the label, so the case does not arise there.) *)
Theorem C20_label_renaming : forall g tab (f : Z -> Z) u nodes tdist,
  (forall a b, f a = f b -> a = b) ->
  (f 0 = 0 \/ forall n, In n (u :: nodes ++ flat_map (nbr_of g tdist) nodes) -> In n (map fst tab)) ->
  label_factor g (map (fun nv => (fst nv, f (snd nv))) tab) u nodes tdist = label_factor g tab u nodes tdist.
Proof.
  intros g tab f u nodes tdist Hinj [H0|Hin]; [apply label_factor_renaming_alt|apply label_factor_renaming_alt2]; assumption.
Qed.
Print Assumptions C20_label_renaming.

(** sliding_delta_conformity reports, for every snapshot id t with t + delta before the last id, exactly
    delta_conformity(G, t, delta, ...) stamped t + delta *)
Theorem C20_sliding : forall dg delta alphas tabs psize ptype,
  sliding_delta_conformity dg delta alphas tabs psize ptype =
  flat_map (fun t => if t + delta <? last (snapshot_ids dg) 0
                     then [(t + delta, delta_conformity dg t delta alphas tabs psize ptype)] else []) (snapshot_ids dg).
Proof. exact sliding_pointwise. Qed.
Print Assumptions C20_sliding.

(** PARTIAL: invariance under renaming NODE ids is not proved (it needs equivariance of the whole pipeline:
    slice, DAG, path enumeration, ranks); it is validated on the implementation by the harness, which runs every
    case a second time under a random permutation of the node ids. *)
Example C20_example :
  let g := fst (add_interaction (fst (add_interaction (empty_graph false true) 1 2 (Some 0) None)) 2 3 (Some 1) None) in
  match delta_conformity g 0 2 [1] [[(1, 0); (2, 0); (3, 1)]] 1 0 with
  | ConfOk [(1, [[(1, q1); (2, q2)]])] => Qeq q1 (1 # 3) /\ Qeq q2 0
  | _ => False
  end.
Proof. vm_compute. auto. Qed.
Print Assumptions C20_example.
