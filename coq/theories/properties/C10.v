(** C10 - Interaction-list files replay the event stream and round-trip presence. *)
From DynVerif Require Import Base Graph Derived Spec Annotate IO.
From DynVerif.proofs Require Import CoreInv C01Facts QueryFacts LogInv DerivedFacts IOFacts ReplayFacts LogRead TextRoundTrip StreamRoundTrip.
From Coq Require Import Sorting.Sorted.

(** write_interactions emits exactly the events of stream_interactions(), as rows (u, v, op, t), in
    chronological order *)
Theorem C10_write : forall g,
  gen_interactions g = map (fun e => match e with (t, (u, v), op) => (u, v, op, t) end) (stream g) /\
  Sorted (fun x y => snd x <= snd y) (gen_interactions g).
Proof. intros. split; [apply gen_interactions_spec|apply gen_interactions_chrono]. Qed.
Print Assumptions C10_write.

(** the reader applies '+' as an appearance at t ... *)
Theorem C10_read_plus : forall g u v s, parse_interactions_from g [(u, v, true, s)] =
  match add_interaction g u v (Some s) None with (g', Done) => RdOk g' | (_, o) => RdErr o end.
Proof. exact parse_interactions_plus. Qed.
Print Assumptions C10_read_plus.

(** ... and '-' at s as a vanishing at s: when the pair's latest run is (a, b) with b < s, one interval add
    from a with vanishing time s (by C01: the pair stays present from its latest appearance through s-1);
    nothing when the run already reaches s-1 or beyond; KeyError for a pair that never appeared *)
Theorem C10_read_minus : forall g u v s,
  parse_interactions_from g [(u, v, false, s)] =
  match aget peqb (nk (g_dir g) u v) (g_edges g) with
  | None => RdErr EKey
  | Some ((a, b), _) =>
      if b <? s then match add_interaction g u v (Some a) (Some s) with (g', Done) => RdOk g' | (_, o) => RdErr o end
      else RdOk g
  end.
Proof.
  intros. cbn [parse_interactions_from]. destruct (aget peqb (nk (g_dir g) u v) (g_edges g)) as [[[a b] older]|]; [|reflexivity].
  destruct (b <? s); [|reflexivity]. destruct (add_interaction g u v (Some a) (Some s)) as [g' o]. destruct o; reflexivity.
Qed.
Print Assumptions C10_read_minus.

(** that interval add makes the pair present exactly on its old presence plus a..s-1 *)
Theorem C10_minus_presence : forall dir rem h c k tau,
  pres dir rem (h ++ [c]) k tau = pres dir rem h k tau || (peqb (ckey dir c) k && in_span rem tau c).
Proof. exact CoreInv.pres_snoc. Qed.
Print Assumptions C10_minus_presence.

(** the reader on ARBITRARY logs: rows of one pair never affect another pair; each pair's timeline is the fold of its own
    rows ([log_step]: '+' at s adds the instant s, '-' at s extends the latest run through s-1); the reader fails exactly
    when some pair's own log does ('-' before any '+', or a '+' before the latest run's start) *)
Theorem C10_reader_per_pair : forall rows g H, g_rem g = true ->
  parse_interactions_from g rows = RdOk H ->
  g_dir H = g_dir g /\ forall k, log_fold (aget peqb k (g_edges g)) (rows_of_pair (g_dir g) k rows) = Some (aget peqb k (g_edges H)).
Proof. exact reader_per_pair. Qed.
Print Assumptions C10_reader_per_pair.
Theorem C10_reader_error : forall rows g o, g_rem g = true -> parse_interactions_from g rows = RdErr o ->
  exists k, log_fold (aget peqb k (g_edges g)) (rows_of_pair (g_dir g) k rows) = None.
Proof. exact reader_error. Qed.
Print Assumptions C10_reader_error.
(** every well-formed log (per pair: chronological, not starting with '-') is read without error into canonical timelines,
    and each step contributes exactly the instants the statement of C10 says *)
Theorem C10_wellformed_log : forall dir rows, (forall k, pair_log_ok (rows_of_pair dir k rows)) ->
  exists H, parse_interactions dir rows = RdOk H /\ g_dir H = dir /\ forall k, ocanon (aget peqb k (g_edges H)).
Proof. exact reader_total. Qed.
Print Assumptions C10_wellformed_log.
Theorem C10_log_step : forall runs op s runs' tau, ocanon runs -> log_step runs op s = Some runs' ->
  ocanon runs' /\
  omem tau runs' = omem tau runs ||
    (if op then (tau =? s)
     else match runs with Some ((a, b), _) => (b <? s) && (a <=? tau) && (tau <=? s - 1) | None => false end).
Proof. exact log_step_mem. Qed.
Print Assumptions C10_log_step.
(** text level: a rendered row u<d>v<d>op<d>t is read back as that row *)
Theorem C10_text : forall m d u v op t, ~ rchar m -> ~ rchar d -> m <> d -> is_ws d = false ->
  m <> 43 -> m <> 45 -> d <> 43 -> d <> 45 ->
  int_line m (Some d) (render_int_row d (u, v, op, t)) = LRow (u, v, op, t).
Proof. exact int_line_render. Qed.
Print Assumptions C10_text.

(** ROUND TRIP -- PARTIAL (finding K-C10-1, consequence of K-C05-1): reading back what was written yields a graph of
    the same class with the same presence relation, for every good graph all of whose runs of two or more instants
    are closed by a '-' ([all_closed]); the read-back presence is the replay of the written stream *)
Theorem C10_roundtrip_partial : forall g, GoodG g -> InvLog g -> all_closed g ->
  exists H, parse_interactions (g_dir g) (gen_interactions g) = RdOk H /\
            forall u v tau, has_interaction H u v (Some tau) = has_interaction g u v (Some tau).
Proof. exact interactions_roundtrip. Qed.
Print Assumptions C10_roundtrip_partial.
(** ... and THE SAME STREAM, event for event and in the same order (one witness carries both); the event log of the
    graph read back is the written stream itself *)
Theorem C10_stream_roundtrip : forall g, GoodG g -> InvLog g -> all_closed g ->
  exists H, parse_interactions (g_dir g) (gen_interactions g) = RdOk H /\ stream H = stream g /\
            forall u v tau, has_interaction H u v (Some tau) = has_interaction g u v (Some tau).
Proof. exact stream_presence_roundtrip. Qed.
Print Assumptions C10_stream_roundtrip.
Theorem C10_roundtrip_log : forall g, GoodG g -> InvLog g -> all_closed g ->
  exists H, parse_interactions (g_dir g) (gen_interactions g) = RdOk H /\
            g_dir H = g_dir g /\ g_rem H = true /\ g_events H = stream g.
Proof. exact roundtrip_log. Qed.
Print Assumptions C10_roundtrip_log.
(** the stream half needs no [all_closed]: for EVERY good graph (hence every reachable one, [C10_reachable]) the file
    is read back without error and the graph read back has the same stream; its event log is the written stream *)
Theorem C10_stream_roundtrip_all : forall g, GoodG g -> InvLog g ->
  exists H, parse_interactions (g_dir g) (gen_interactions g) = RdOk H /\ stream H = stream g /\
            g_dir H = g_dir g /\ g_rem H = true /\ g_events H = stream g.
Proof.
  intros g Hg Hl. destruct (roundtrip_log_all g Hg Hl) as (H & Hp & Hd & Hr & He).
  exists H. repeat split; try assumption. now apply stream_of_stream.
Qed.
Print Assumptions C10_stream_roundtrip_all.
(** the hypotheses hold of every reachable removal-enabled graph, except [all_closed] *)
Theorem C10_reachable : forall dir cs, GoodG (run_calls (G0 dir) cs) /\ InvLog (run_calls (G0 dir) cs).
Proof.
  intros. split.
  - destruct (Good_reach dir cs) as (H1 & H2 & H3). split; [exact H1|split; [exact H2|exact H3]].
  - apply (InvLog_run cs (G0 dir) []); [reflexivity|apply Inv_init|apply InvLog_init].
Qed.
Print Assumptions C10_reachable.
(** the same at text level: the written lines, read by the text reader *)
Theorem C10_file_roundtrip_partial : forall g m d, GoodG g -> InvLog g -> all_closed g ->
  ~ rchar m -> ~ rchar d -> m <> d -> is_ws d = false -> m <> 43 -> m <> 45 -> d <> 43 -> d <> 45 ->
  exists H, read_interactions_text (g_dir g) m (Some d) false (map (render_int_row d) (gen_interactions g)) = TxOk H /\
            forall u v tau, has_interaction H u v (Some tau) = has_interaction g u v (Some tau).
Proof. exact interaction_file_roundtrip. Qed.
Print Assumptions C10_file_roundtrip_partial.
(** for a graph holding an unclosed two-instant run the full statement is refuted by that very graph: *)
Theorem C10_roundtrip_refuted : exists g H u v tau, GoodG g /\
  parse_interactions (g_dir g) (gen_interactions g) = RdOk H /\
  has_interaction g u v (Some tau) = true /\ has_interaction H u v (Some tau) = false.
Proof.
  exists (run_calls (G0 false) [mkCall 1 2 18 None; mkCall 1 2 19 None]). eexists. exists 1, 2, 19.
  split; [destruct (Good_reach false [mkCall 1 2 18 None; mkCall 1 2 19 None]) as (H1 & H2 & H3); split; [exact H1|split; [exact H2|exact H3]]|].
  split; [vm_compute; reflexivity|]. split; vm_compute; reflexivity.
Qed.
Print Assumptions C10_roundtrip_refuted.

Example C10_example :
  let g := run_calls (G0 true) [mkCall 1 2 0 (Some 3); mkCall 2 3 1 None; mkCall 1 2 5 (Some 7)] in
  gen_interactions g = [(1, 2, true, 0); (2, 3, true, 1); (1, 2, false, 3); (1, 2, true, 5); (1, 2, false, 7)] /\
  match parse_interactions true (gen_interactions g) with
  | RdOk H => map (fun t => has_interaction H 1 2 (Some t)) [0; 2; 3; 5; 6; 7] = [true; true; false; true; true; false] /\ stream H = stream g
  | _ => False
  end.
Proof. vm_compute. auto. Qed.
Print Assumptions C10_example.
