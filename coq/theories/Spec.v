(** Spec: the readable reference the theorems compare the model against.
    A history is the list of ACCEPTED calls; presence is the union of their spans. *)
From DynVerif Require Import Base Graph.

Record call := mkCall { c_u : Z; c_v : Z; c_t : Z; c_e : option Z }.

(** the closed interval a call adds: [t,t] without vanishing time, [t, e-1] with vanishing time e
    (empty when e <= t); on accumulative graphs the vanishing time is ignored *)
Definition span_end (rem : bool) (c : call) : Z :=
  match c_e c with Some e => if rem then e - 1 else c_t c | None => c_t c end.
Definition in_span (rem : bool) (tau : Z) (c : call) : bool :=
  (c_t c <=? tau) && (tau <=? span_end rem c).
Definition nonempty (rem : bool) (c : call) : bool := c_t c <=? span_end rem c.
Definition ckey (dir : bool) (c : call) : Z * Z := nk dir (c_u c) (c_v c).

(** THE presence relation: pair k is present at tau iff some accepted call on k has tau in its span *)
Definition pres (dir rem : bool) (h : list call) (k : Z * Z) (tau : Z) : bool :=
  existsb (fun c => peqb (ckey dir c) k && in_span rem tau c) h.
(** the pair was ever added (with a non-empty span) *)
Definition named (dir rem : bool) (h : list call) (k : Z * Z) : bool :=
  existsb (fun c => peqb (ckey dir c) k && nonempty rem c) h.

(** running a sequence of add_interaction calls (t given), collecting the accepted ones *)
Definition do_call (g : graph) (c : call) : graph * outcome :=
  add_interaction g (c_u c) (c_v c) (Some (c_t c)) (c_e c).
Fixpoint run_calls (g : graph) (cs : list call) : graph :=
  match cs with [] => g | c :: r => run_calls (fst (do_call g c)) r end.
Fixpoint accepted (g : graph) (cs : list call) : list call :=
  match cs with
  | [] => []
  | c :: r => let '(g', o) := do_call g c in
              match o with Done => c :: accepted g' r | _ => accepted g' r end
  end.

(** canonical timeline, newest run first: start <= end, and at least one absent instant between runs *)
Fixpoint canon (l : list (Z * Z)) : Prop :=
  match l with
  | [] => True
  | (a, b) :: r => a <= b /\ (match r with [] => True | (_, b') :: _ => b' + 1 < a end) /\ canon r
  end.
