(** Names: the textual encoding of DAG occurrences used by dynetx.algorithms.paths.  temporal_dag names the occurrence of
    node n at snapshot t  f"{n}_{t}"  (a string); it recovers the node with  name.rsplit("_", 1)[0]  and
    time_respecting_paths recovers (node, time) with  name.split("_")  followed by re-joining all fields but the last.
    Node ids are arbitrary strings here (they may contain '_'); instants are integers.  The model of the path
    algorithms (Paths.v) uses pairs [Occ n t] instead of names: NameFacts.v proves that the encoding is injective and
    that both decoders invert it, which is what makes the pair model faithful. *)
From DynVerif Require Import Base IO.

Definition us : Z := 95.                                   (* '_' *)
Definition occ_name (n : line) (t : Z) : line := n ++ us :: render_int t.

(** name.rsplit("_", 1): split at the LAST underscore (None when there is none) *)
Fixpoint rsplit1 (d : Z) (l : line) : option (line * line) :=
  match l with
  | [] => None
  | c :: r =>
      match rsplit1 d r with
      | Some (a, b) => Some (c :: a, b)
      | None => if c =? d then Some ([], r) else None
      end
  end.
(** temporal_dag (after fix f2d9827): the node of an occurrence name *)
Definition name_node (s : line) : option line := option_map fst (rsplit1 us s).
(** ... and before the fix: name.split("_")[0], the text before the FIRST underscore *)
Definition name_node_first (s : line) : line := hd [] (split_on us s []).

(** time_respecting_paths: fields = name.split("_"); time = int(fields[-1]); node = "_".join(fields[:-1]) *)
Definition decode_name (s : line) : option (line * Z) :=
  let fs := split_on us s [] in
  match parse_int (last fs []) with
  | Some t => Some (join us (removelast fs), t)
  | None => None
  end.
