(** Stats: executable model of the stream-graph statistics of DynGraph (coverage, contributions, uniformity,
    densities, node_presence) and of the inter-event time distributions of both classes.  Ratios are returned as
    (numerator, denominator); the Python code divides at the very end (ZeroDivisionError when the denominator
    is 0, except where the code tests for it). *)
From DynVerif Require Import Base Graph Derived.

Definition snap_keys (g : graph) : list Z := map fst (g_snaps g).          (* iteration over self.snapshots *)
Definition bz1 (b : bool) : Z := if b then 1 else 0.
Definition count_if {A} (f : A -> bool) (l : list A) : Z := sumZ (map (fun x => bz1 (f x)) l).

Definition node_presence (g : graph) (u : Z) : list Z := filter (fun t => has_node g u (Some t)) (snap_keys g).

Definition coverage (g : graph) : Z * Z :=
  (sumZ (map (fun t => number_of_nodes g (Some t)) (snap_keys g)),
   Z.of_nat (length (g_snaps g)) * number_of_nodes g None).
Definition node_contribution (g : graph) (u : Z) : Z * Z :=
  (count_if (fun t => has_node g u (Some t)) (snap_keys g), Z.of_nat (length (g_snaps g))).
(** sum of the run lengths of the pair's timeline; None = KeyError (no adjacency entry) *)
Definition edge_contribution (g : graph) (u v : Z) : option (Z * Z) :=
  match aget peqb (nk (g_dir g) u v) (g_edges g) with
  | None => None
  | Some tl => Some (sumZ (map (fun r => snd r - fst r + 1) (tl_list tl)), Z.of_nat (length (g_snaps g)))
  end.
Definition both_at (g : graph) (u v t : Z) : bool := has_node g u (Some t) && has_node g v (Some t).
Definition either_at (g : graph) (u v t : Z) : bool := has_node g u (Some t) || has_node g v (Some t).
Definition node_pair_uniformity (g : graph) (u v : Z) : Z * Z :=
  (count_if (both_at g u v) (snap_keys g), count_if (either_at g u v) (snap_keys g)).
(** itertools.combinations(nodes, 2) *)
Definition node_pairs (g : graph) : list (Z * Z) := pairs_after (node_ids g).
Definition uniformity (g : graph) : Z * Z :=
  (sumZ (map (fun p => count_if (both_at g (fst p) (snd p)) (snap_keys g)) (node_pairs g)),
   sumZ (map (fun p => count_if (either_at g (fst p) (snd p)) (snap_keys g)) (node_pairs g))).
Definition st_density (g : graph) : Z * Z :=
  (sumZ (map (fun p => count_if (fun t => has_interaction g (fst p) (snd p) (Some t)) (snap_keys g)) (node_pairs g)),
   sumZ (map (fun p => count_if (both_at g (fst p) (snd p)) (snap_keys g)) (node_pairs g))).
Definition pair_density (g : graph) (u v : Z) : Z * Z :=
  let den := count_if (both_at g u v) (snap_keys g) in
  if den =? 0 then (0, 1) else (count_if (fun t => has_interaction g u v (Some t)) (snap_keys g), den).
Definition node_density (g : graph) (u : Z) : Z * Z :=
  let num := sumZ (map (fun t => if has_node g u (Some t) then deg1 g (Some t) u else 0) (snap_keys g)) in
  let pu := node_presence g u in
  let den := sumZ (map (fun v => Z.of_nat (length (filter (fun t => memZ t pu) (node_presence g v)))) (node_ids g)) in
  if den =? 0 then (0, 1) else (num, den).

(** snapshot_density(t) = nx.density(time_slice(t)): n nodes of the slice, m = its size() *)
Definition snapshot_density (g : graph) (t : Z) : option (Z * Z) :=
  match time_slice g t None with
  | (Some h, _) =>
      let n := number_of_nodes h None in
      let m := size h None in
      Some (if (m =? 0) || (n <=? 1) then (0, 1) else ((if g_dir h then m else 2 * m), n * (n - 1)))
  | (None, _) => None
  end.

(** inter-event time distributions: histogram of the gaps between consecutive events of the (restricted) stream *)
Fixpoint gaps (l : list Z) : list Z :=
  match l with a :: ((b :: _) as r) => (b - a) :: gaps r | _ => [] end.
Fixpoint hist_add (x : Z) (h : list (Z * Z)) : list (Z * Z) :=
  match h with
  | [] => [(x, 1)]
  | (k, c) :: r => if x =? k then (k, c + 1) :: r else (k, c) :: hist_add x r
  end.
Definition histogram (l : list Z) : list (Z * Z) := fold_left (fun h x => hist_add x h) l [].

(** sel: 0 = all events, 1 = events touching u (either endpoint), 2 = out (first endpoint is u), 3 = in *)
Definition ev_selected (sel u : Z) (e : event) : bool :=
  match e with (_, (a, b), _) =>
    if sel =? 0 then true else if sel =? 1 then (a =? u) || (b =? u) else if sel =? 2 then a =? u else b =? u end.
Definition iet_times (g : graph) (sel u : Z) : list Z := map ev_time (filter (ev_selected sel u) (stream g)).
Definition inter_event_time_distribution (g : graph) (sel u : Z) : list (Z * Z) := histogram (gaps (iet_times g sel u)).
