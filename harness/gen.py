"""Generators of histories and probe programs. Every random choice derives from the Random instance passed
in; the exhaustive generators do not use randomness at all."""
import itertools, random

PAIRS_E2 = [(1, 2), (2, 1), (1, 3), (1, 1)]


def rel_call(rnd, latest, tmin=0):
    """choose (t, e) relative to the pair's latest run (a, b) (None if no run yet); returns (t, e, cls)"""
    point = rnd.random() < 0.45
    if latest is None:
        t = rnd.randint(tmin, tmin + 6)
        cls = 'first'
    else:
        a, b = latest
        cls = rnd.choices(['before', 'eqstart', 'inside', 'touch_end', 'overlap', 'adjacent', 'gap'],
                          weights=[1, 2, 2, 2, 3, 3, 4])[0]
        if cls == 'before':
            t = a - rnd.randint(1, 3)
        elif cls == 'eqstart':
            t = a
        elif cls == 'inside':
            t = rnd.randint(a, b)
        elif cls == 'touch_end':
            t = b
        elif cls == 'overlap':
            t = rnd.randint(a, b)
            point = False
        elif cls == 'adjacent':
            t = b + 1
        else:
            t = b + rnd.randint(2, 4)
    if point:
        return t, None, cls
    if latest is not None and cls == 'overlap':
        e = latest[1] + 1 + rnd.randint(1, 3)
    elif latest is not None and cls in ('inside', 'eqstart') and rnd.random() < 0.5:
        e = rnd.randint(t + 1, max(t + 1, latest[1] + 1))  # contained, possibly stating the end
    else:
        e = t + rnd.randint(1, 4)
    return t, e, cls


def merge_ref(latest_runs, t, e, removal=True):
    """reference bookkeeping of the latest run per pair, only to steer the generator (not an oracle)"""
    s, f = t, (e - 1 if (e is not None and removal) else t)
    if f < s:
        return latest_runs
    if latest_runs is None:
        return (s, f)
    a, b = latest_runs
    if s < a:
        return latest_runs
    if s > b + 1:
        return (s, f)
    return (a, max(b, f))


def random_history(rnd, directed, n_calls=None, n_nodes=None, removal=True, malformed=0.0, none_t=0.03):
    """list of ('add', 0, u, v, t, e) ops plus the class counts; mostly valid by construction"""
    n_nodes = n_nodes or rnd.randint(2, 5)
    n_calls = n_calls or rnd.randint(1, 12)
    nodes = list(range(1, n_nodes + 1))
    latest = {}
    ops, classes = [], []
    for _ in range(n_calls):
        r = rnd.random()
        if r < 0.12:
            u = v = rnd.choice(nodes)
        else:
            u, v = rnd.sample(nodes, 2) if n_nodes > 1 else (nodes[0], nodes[0])
        if latest and rnd.random() < 0.6:
            # favour pairs already touched (either orientation)
            u, v = rnd.choice(list(latest.keys()))
            if rnd.random() < 0.35:
                u, v = v, u
        key = (u, v) if directed else (min(u, v), max(u, v))
        if rnd.random() < none_t:
            ops.append(('add', 0, u, v, None, rnd.choice([None, 3])))
            classes.append('t_none')
            continue
        t, e, cls = rel_call(rnd, latest.get(key))
        if rnd.random() < malformed:
            e = t - rnd.randint(0, 2)
            cls = 'empty_span'
        ops.append(('add', 0, u, v, t, e))
        classes.append(cls + ('_pt' if e is None else '_iv'))
        if cls != 'before':
            latest[key] = merge_ref(latest.get(key), t, e, removal)
    return ops, classes


def exhaustive_E1(max_len=3, tmax=4, emax=3, empty=False):
    """one pair (1,2): all histories of <= max_len calls with t in 0..tmax, e in {None, t+1..t+emax}"""
    calls = []
    for t in range(0, tmax + 1):
        calls.append((1, 2, t, None))
        for d in range((0 if empty else 1), emax + 1):
            calls.append((1, 2, t, t + d))
    for L in range(1, max_len + 1):
        for h in itertools.product(calls, repeat=L):
            yield [('add', 0, u, v, t, e) for (u, v, t, e) in h]


def exhaustive_E2(max_len=2, tmax=3, emax=2):
    calls = []
    for (u, v) in PAIRS_E2:
        for t in range(0, tmax + 1):
            calls.append((u, v, t, None))
            for d in range(1, emax + 1):
                calls.append((u, v, t, t + d))
    for L in range(1, max_len + 1):
        for h in itertools.product(calls, repeat=L):
            yield [('add', 0, u, v, t, e) for (u, v, t, e) in h]


# probability of a LONG timeline in a random state (set by the engine so that a run holds about 30 of them, whatever the tier)
MANY_RUNS_P = 0.05


def exhaustive_E3(max_len=3, tmax=3, emax=3):
    """the two orientations of ONE pair, every history of <= max_len calls: reciprocal arcs on the digraph (whose
    events may share instants), either endpoint order on the graph"""
    calls = []
    for (u, v) in ((1, 2), (2, 1)):
        for t in range(0, tmax + 1):
            calls.append((u, v, t, None))
            for d in range(1, emax + 1):
                calls.append((u, v, t, t + d))
    for h in itertools.product(calls, repeat=max_len):
        yield [('add', 0, u, v, t, e) for (u, v, t, e) in h]


def history_nodes(ops):
    ns = []
    for op in ops:
        if op[0] == 'add':
            for x in (op[2], op[3]):
                if x not in ns:
                    ns.append(x)
        elif op[0] == 'addnode':
            if op[2] not in ns:
                ns.append(op[2])
        elif op[0] == 'bulk3':
            for p in op[4]:
                for x in p[:2]:
                    if x not in ns:
                        ns.append(x)
        elif op[0] == 'bulk':
            l = op[5]
            for p in l:
                for x in (p if isinstance(p, tuple) else (p,)):
                    if x not in ns:
                        ns.append(x)
    return ns


def history_times(ops):
    ts = []
    for op in ops:
        if op[0] == 'add':
            if op[4] is not None:
                ts.append(op[4])
                if op[5] is not None:
                    ts.append(op[5])
        elif op[0] == 'bulk3':
            ts += [x for x in (op[2], op[3]) if x is not None] + [x for p in op[4] for x in p[2:4]]
        elif op[0] == 'bulk':
            if op[3] is not None:
                ts.append(op[3])
                if op[4] is not None:
                    ts.append(op[4])
    return ts


def probe_instants(ops, pad_lo=1, pad_hi=2):
    ts = history_times(ops)
    if not ts:
        return [0]
    return list(range(min(ts) - pad_lo, max(ts) + pad_hi + 1))
