import sys, random, time
sys.path.insert(0, '/verif/harness')
from core import *
import gen

def all_probes(r, hist, directed):
    ns = [n for n in gen.history_nodes(hist) if any(op[0]=='add' and op[4] is not None and n in (op[2],op[3]) for op in hist) or any(op[0]=='addnode' and op[2]==n for op in hist)] + [99]
    ts = gen.probe_instants(hist) + [None]
    ps = []
    for t in ts:
        for u in ns:
            for v in ns:
                ps.append(('has', r, u, v, t))
        for n in ns:
            ps.append(('nbrs', r, 'neighbors', n, t))
            if directed: ps.append(('nbrs', r, 'predecessors', n, t))
            ps.append(('nbrs', r, 'all_neighbors', n, t))
            ps.append(('nbrs', r, 'non_neighbors', n, t))
            ps.append(('hasnode', r, n, t))
        for kind in (('degree','in_degree','out_degree') if directed else ('degree',)):
            ps.append(('deg', r, kind, t, None))
            ps.append(('deg', r, kind, t, ns[:2]+[99]))
        for kind in (('interactions','in_interactions','out_interactions') if directed else ('interactions',)):
            ps.append(('inter', r, kind, t, None))
            ps.append(('inter', r, kind, t, ns[1:3]+[99]))
        ps += [('nodes', r, t), ('nnodes', r, t), ('nint', r, None, t), ('size', r, t), ('ips', r, t), ('density', r, t)]
        if ns[:-1]: ps.append(('deghist', r, t))
        if not directed: ps.append(('nonint', r, t))
        for u in ns[:-1]:
            for v in ns[:-1]:
                ps.append(('nint', r, (u, v), t))
    ps += [('ids', r), ('stream', r), ('isempty', r), ('avgnodes', r), ('meta', r)]
    for n in ns: ps.append(('nodesnaps', r, n))
    return ps

def main(n, seed):
    rnd = random.Random(seed)
    progs = []
    for i in range(n):
        directed = rnd.random() < 0.5
        removal = rnd.random() < 0.8
        hist, _ = gen.random_history(rnd, directed, removal=removal, malformed=0.05)
        prog = [('new', 0, directed, removal)]
        if rnd.random() < 0.3: prog.append(('addnode', 0, 7, rnd.choice([0, 5])))
        prog += hist
        prog += all_probes(0, hist, directed)
        # derived
        ts = gen.probe_instants(hist)
        a = rnd.choice(ts); b = rnd.choice([None, a, a + 1, a + 3, a - 1])
        prog.append(('slice', 0, 1, a, b))
        prog.append(('todir', 0, 2) if not directed else ('toundir', 0, 2, rnd.random() < 0.4))
        hh = hist + ([('addnode',0,7,0)] if any(o[0]=='addnode' for o in prog) else [])
        prog += all_probes(1, hh, directed)
        prog += all_probes(2, hh, not directed)
        progs.append(prog)
    t0 = time.time()
    rm = run_model(progs)
    t1 = time.time()
    bad = 0
    for p, m in zip(progs, rm):
        ri = run_impl(p, family=rnd.choice(['int','str','tuple']), functional=rnd.random()<0.5)
        d = [x for x in diff_results(p, ri, m) if not (x[1][0]=='nint' and x[2] in ('EXC:KeyError','KeyError')) and not (x[1][0]=='deghist' and x[2]=='ValueError')]
        if d:
            bad += 1
            if bad <= 5:
                print('PROG', [op for op in p if op[0] in ('new','add','addnode','bulk')])
                for x in d[:6]: print('   ', x)
    print('progs', n, 'bad', bad, 'model %.1fs impl %.1fs' % (t1 - t0, time.time() - t1))

main(int(sys.argv[1]), int(sys.argv[2]))
