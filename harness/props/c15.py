"""C15 - temporal_dag is acyclic, sound and window-respecting."""
import gen
from props.base import PropBase, tup, bigio_case, with_bigio
from props.pathscommon import graph_case, exhaustive_graphs, all_queries, base_program, World


@with_bigio
class C15(PropBase):
    id = 'C15'
    obs = {'tdag', 'occname'}
    rule = ('temporal graph = <= 5 nodes, <= 7 instants, <= 12 point/interval interactions, both classes, int ids, "_"-free string ids or (not for C12) string ids containing "_"; arbitrary text ids for the occurrence names; '
            'temporal_dag(G,u,v,start,end) for roots in the graph, targets in {None, node, the root}, windows inside and outside the id '
            'range and start > end; the returned networkx DAG is checked for acyclicity, edge soundness against has_interaction, time '
            'order, sources = occurrences of u at window instants with a neighbour, targets, membership of sources/targets in the DAG, '
            'ValueError for improper windows, empty DAG without snapshots. non-trivial = DAG with an edge between two non-source '
            'occurrences')

    def scopes(self, tier):
        return ['all temporal graphs on 3 nodes, 3 instants, <= %d point interactions (every %s) x all (u, v in {None}+V, start, end in {None,0,1,2}), both classes'
                % ((2, '3rd') if tier == 'quick' else (3, '2nd'))]

    def exhaustive_cases(self, tier):
        if self.id == 'C15':
            # one LARGE graph per class (1 200 nodes, 15 instants: > 10 000 live occurrences in one call), implementation side only
            yield bigio_case(('dag-big', False, 1200, 15))
            yield bigio_case(('dag-big', True, 1200, 15))
        for directed in (False, True):
            for h in exhaustive_graphs(3, 3, 2 if tier == 'quick' else 3, step=3 if tier == 'quick' else 2):
                yield dict(directed=directed, removal=True, hist=h, family='int', functional=False,
                           queries=all_queries([1, 2, 3], 3), min_t=None)

    def n_random(self, tier):
        return 600 if tier == 'quick' else 40000

    def random_cases(self, rnd, n):
        for _ in range(n):
            c = graph_case(rnd, long_timeline=(self.id == 'C15'))
            if self.id == 'C12' and c['family'] == 'us':
                c['family'] = 'str'      # C12 is quantified over integer or '_'-free string node ids only
            # occurrence names: arbitrary text ids (underscores, digits, signs, blanks, empty), any instant
            alphabet = 'ab_9- .\u00e9'
            names = []
            for _k in range(rnd.randint(0, 3)):
                u = ''.join(rnd.choice(alphabet) for _j in range(rnd.randint(0, 5)))
                v = ''.join(rnd.choice(alphabet) for _j in range(rnd.randint(0, 5)))
                t = rnd.choice([0, 3, 10, -1, -12, 105])
                # the root is told apart from occurrence names by equality only: keep ids that are not such names
                if u != v and u != '%s_%d' % (v, t) and v != '%s_%d' % (u, t):
                    names.append((u, v, t))
            c['names'] = names
            yield c

    def program(self, case):
        prog, ns, ts = base_program(case)
        for (u, v, a, b) in case['queries']:
            if u in ns:
                prog.append(('tdag', 0, u, v, a, b))
        for (u, v, t) in case.get('names', []):
            prog.append(('occname', u, v, t))
        return prog

    def oracle(self, case, prog, ri):
        fails = []
        W = World(prog, ri)
        for i, (op, r) in enumerate(zip(prog, ri)):
            if op[0] == 'occname':
                _, nu, nv, nt = op
                exp = dict(names=['%s_%d' % (nu, nt), '%s_%d' % (nv, nt)], hop=(nu, nv, nt), node_of_target=nv)
                if r != exp:
                    fails.append(dict(index=i, op=list(op), what='occurrences of %r -> %r at %d are named / decoded %r' % (nu, nv, nt, r)))
                continue
            if op[0] != 'tdag':
                continue
            _, _, u, v, a, b = op
            win = W.window(a, b)
            if win == 'ValueError':
                if r != 'ValueError':
                    fails.append(dict(index=i, op=list(op), what='improper window gave %r, not ValueError' % (r,)))
                continue
            if not isinstance(r, dict):
                fails.append(dict(index=i, op=list(op), what='proper window raised %r' % (r,)))
                continue
            loop = any(u in W.nbrs(u, t) for t in win)
            trig = 'root_selfloop_in_window' if loop else None
            if not r.get('_acyclic', True):
                fails.append(dict(index=i, op=list(op), what='the DAG has a cycle', trigger=trig))
            if not r.get('_nodes_ok', True):
                fails.append(dict(index=i, op=list(op), what='a source or target is not a node of the DAG'))
            srcs = set(r['sources'])
            for (x, s), (y, t) in r['edges']:
                if t not in win:
                    fails.append(dict(index=i, op=list(op), what='edge into instant %r outside the window' % t))
                if y not in W.nbrs(x, t):
                    fails.append(dict(index=i, op=list(op), what='edge %r -> %r is not an interaction present at %r' % (x, y, t)))
                if not (s < t or ((x, s) in srcs and s == t)):
                    fails.append(dict(index=i, op=list(op), what='edge %r@%r -> %r@%r violates the time order' % (x, s, y, t),
                                      trigger=trig if (x, s) == (y, t) else None))
            exp_src = sorted((u, t) for t in win if W.nbrs(u, t))
            if r['sources'] != exp_src:
                fails.append(dict(index=i, op=list(op), what='sources %r, expected %r' % (r['sources'], exp_src)))
            for (y, t) in r['targets']:
                if v is not None and y != v:
                    fails.append(dict(index=i, op=list(op), what='target %r is not an occurrence of %r' % ((y, t), v)))
            if not W.ids and (r['edges'] or r['sources'] or r['targets']):
                fails.append(dict(index=i, op=list(op), what='graph without snapshots gave a non-empty DAG'))
        return fails

    def nontrivial(self, case, prog, ri):
        for op, r in zip(prog, ri):
            if op[0] == 'tdag' and isinstance(r, dict):
                s = set(r['sources'])
                if any(a not in s for a, b in r['edges']):
                    return True
        return False

    def shrink_candidates(self, case):
        for c in super().shrink_candidates(case):
            yield c
        q = case.get('queries', [])
        if len(q) > 1:
            for i in range(len(q)):
                c = dict(case)
                c['queries'] = [q[i]]
                yield c


PROP = C15()
