"""C11 - JSON node-link data round-trips class, nodes, attributes and presence."""
import gen
from props.base import PropBase, tup
from props.graphcommon import state_case, known_nodes, has_probes, Truth
from props.suboracles import o_canon


class C11(PropBase):
    id = 'C11'
    obs = {'nld', 'rtnl', 'nlg', 'has', 'nodes', 'meta'}
    rule = ('removal-enabled graph (both classes; reciprocal pairs, self-loops, isolated and attributed nodes, graph attributes; int, '
            'ASCII or non-ASCII string ids) -> node_link_data -> json.dumps -> json.loads: directedness recorded, every node with its attributes, one link '
            '{source,target,time} per interaction and present instant (oriented when directed); node_link_graph of that data: same class, '
            'nodes, attributes, presence; data without a "directed" entry uses the argument. non-trivial = graph with an isolated node and '
            'a multi-instant run')
    validated_only = ['json.dumps/json.loads are exercised, not modelled', 'custom attrs["id"] is not exercised']

    def scopes(self, tier):
        return ['E2 histories (4 pair shapes, <= 2 calls, t in 0..2), both classes' + ('' if tier == 'thorough' else ' (every 4th)')]

    def exhaustive_cases(self, tier):
        step = 1 if tier == 'thorough' else 4
        for directed in (False, True):
            for i, h in enumerate(gen.exhaustive_E2(max_len=2, tmax=2)):
                if i % step == 0:
                    yield dict(directed=directed, removal=True, hist=h, family='int', functional=False, gattr=i % 3)

    def n_random(self, tier):
        return 500 if tier == 'quick' else 30000

    def random_cases(self, rnd, n):
        for _ in range(n):
            c = state_case(rnd, removal=True, max_calls=9, family=rnd.choice(['int', 'int', 'str', 'ustr']))
            c['gattr'] = rnd.choice([0, 4, 4, 5, 6, 7, 8])
            yield c

    def program(self, case):
        hist = tup(case['hist'])
        d = case['directed']
        prog = [('new', 0, d, True)]
        if case.get('gattr'):
            prog.append(('gattr', 0, case['gattr']))
        prog += hist
        ns = known_nodes(hist)
        ts = gen.probe_instants(hist)
        prog += [('nodes', 0, None), ('meta', 0)] + has_probes(0, ns, ts) + [('nld', 0)]
        prog += [('rtnl', 0, 1, not d), ('nodes', 1, None), ('meta', 1)] + has_probes(1, ns, ts)
        prog += [('inter', 1, 'out_interactions' if d else 'interactions', None, None)]
        # data that does not say whether it is directed: the argument decides
        links = [(ns[0], ns[-1], 3)] if ns else []
        for j, arg in enumerate((False, True)):
            prog += [('nlg', 2 + j, dict(directed=None, dirarg=arg, graph=0, nodes=[(n, 0) for n in ns], links=links)), ('meta', 2 + j)]
        return prog

    def oracle(self, case, prog, ri):
        fails = []
        T = Truth(prog, ri)
        d = case['directed']
        src_nodes = next((r for op, r in zip(prog, ri) if op[0] == 'nodes' and op[1] == 0), None)
        src_meta = next((r for op, r in zip(prog, ri) if op[0] == 'meta' and op[1] == 0), None)
        for i, (op, r) in enumerate(zip(prog, ri)):
            if op[0] == 'nld':
                if not isinstance(r, dict):
                    fails.append(dict(index=i, op=['nld'], what='node_link_data / json: %r' % (r,)))
                    continue
                if r['directed'] != d:
                    fails.append(dict(index=i, op=['nld'], what='directed flag %r' % r['directed']))
                if r['nodes'] != src_nodes:
                    fails.append(dict(index=i, op=['nld'], what='nodes %r, graph has %r' % (r['nodes'], src_nodes)))
                if src_meta and r['graph'] != src_meta[2]:
                    fails.append(dict(index=i, op=['nld'], what='graph attributes %r' % (r['graph'],)))
                exp = sorted((u, v, t) for (rr, u, v, t), val in T.has.items() if rr == 0 and val is True and t is not None)
                got = list(r['links'])
                if not d:
                    exp = sorted(set((min(u, v), max(u, v), t) for (u, v, t) in exp))
                    got = sorted((min(u, v), max(u, v), t) for (u, v, t) in got)
                if got != exp:
                    fails.append(dict(index=i, op=['nld'], what='links %r, presence gives %r' % (got[:8], exp[:8])))
            elif op[0] == 'rtnl' and r not in ('Done', 'SKIP'):
                fails.append(dict(index=i, op=['rtnl'], what='node_link_graph raised %s' % r))
            elif op[0] == 'nodes' and op[1] == 1 and r != src_nodes:
                fails.append(dict(index=i, op=list(op), what='rebuilt nodes %r, source %r' % (r, src_nodes)))
            elif op[0] == 'meta' and op[1] == 1 and src_meta and (r[0] != src_meta[0] or r[2] != src_meta[2]):
                fails.append(dict(index=i, op=list(op), what='rebuilt class/graph attributes %r, source %r' % (r, src_meta)))
            elif op[0] == 'has' and op[1] == 1 and op[4] is not None:
                src = T.has.get((0, op[2], op[3], op[4]))
                if r != src:
                    fails.append(dict(index=i, op=list(op), what='rebuilt presence %r, source %r' % (r, src)))
            elif op[0] == 'meta' and op[1] in (2, 3) and isinstance(r, tuple):
                if r[0] != int(op[1] == 3):
                    fails.append(dict(index=i, op=list(op), what='data without "directed": class %r for argument %r' % (r[0], op[1] == 3)))
        fails += o_canon(1, prog, ri, T)
        return fails

    def nontrivial(self, case, prog, ri):
        for op, r in zip(prog, ri):
            if op[0] == 'nld' and isinstance(r, dict):
                ends = {x for (u, v, t) in r['links'] for x in (u, v)}
                iso = any(n not in ends for n, a in r['nodes'])
                multi = len(r['links']) >= 2
                return iso and multi
        return False


PROP = C11()
