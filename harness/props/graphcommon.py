"""Shared pieces for the properties that speak about graph states (C02-C08, C16): state generator,
probe builder, and the independent 'static graph' oracle computed from has_interaction answers."""
import networkx as nx
from fractions import Fraction
import gen
from props.base import tup, norm_key

UNKNOWN = 99


def state_case(rnd, removal=None, max_calls=10, family=None, malformed=0.07, isolated=True, very_long=False):
    directed = rnd.random() < 0.5
    if removal is None:
        removal = rnd.random() < 0.85
    hist, classes = gen.random_history(rnd, directed, n_calls=rnd.randint(1, max_calls), removal=removal,
                                       malformed=malformed, none_t=0.02)
    # force interesting shapes: self-loops, reciprocal pairs, isolated nodes
    if rnd.random() < 0.35:
        n = rnd.randint(1, 4)
        t = rnd.randint(0, 6)
        hist.insert(rnd.randint(0, len(hist)), ('add', 0, n, n, t, rnd.choice([None, t + 2])))
        classes.append('selfloop')
    if directed and hist and rnd.random() < 0.5:
        o = rnd.choice([h for h in hist if h[0] == 'add'])
        hist.append(('add', 0, o[3], o[2], (o[4] or 0) + rnd.randint(0, 2), rnd.choice([None, (o[4] or 0) + 3])))
        classes.append('reciprocal')
    if rnd.random() < gen.MANY_RUNS_P:
        # LONG timeline: one pair with 18..45 separate runs of one to three instants (plus what the history had)
        k = rnd.choice([rnd.randint(18, 45), rnd.randint(18, 45), rnd.randint(65, 100), rnd.randint(129, 140), rnd.randint(257, 300) if very_long else rnd.randint(129, 140)])
        a, b = rnd.choice([(1, 2), (2, 1), (2, 3)])
        t0 = rnd.randint(0, 3)
        long_tl = [('add', 0, a, b, t0 + 6 * i, rnd.choice([None, t0 + 6 * i + 2, t0 + 6 * i + 3])) for i in range(k)]
        # ... followed by calls placed relative to the LATEST run: its start again (point / longer span), inside, its end + 1
        ls = t0 + 6 * (k - 1)
        for _ in range(rnd.randint(0, 3)):
            s0 = ls + rnd.choice([0, 0, 1, 2, 3])
            u_, v_ = rnd.choice([(a, b), (a, b), (b, a)])
            long_tl.append(('add', 0, u_, v_, s0, rnd.choice([None, s0 + 1, ls + 4, ls + 6])))
        hist = [o for o in hist if not (o[0] == 'add' and {o[2], o[3]} == {a, b})][:3] + long_tl
        classes.append('many_runs')
    pre = []
    if isolated and rnd.random() < 0.4:
        pre.append(('addnode', 0, 7, rnd.choice([0, 5])))
        classes.append('isolated')
    if rnd.random() < 0.25:
        nodes = gen.history_nodes(hist) or [1]
        pre.append(('addnode', 0, rnd.choice(nodes), rnd.randint(1, 4)))
        classes.append('node_attr')
    if rnd.random() < 0.4:
        # falsy node id: relabel node 1 as 0
        z = lambda x: 0 if x == 1 else x
        hist = [(o[0], o[1], z(o[2]), z(o[3])) + tuple(o[4:]) if o[0] == 'add' else o for o in hist]
        pre = [(o[0], o[1], z(o[2])) + tuple(o[3:]) for o in pre]
        classes.append('node_id_zero')
    if rnd.random() < 0.22:
        from props.base import shift_op
        # negative instants; instants around 2^31, 2^61, millisecond epochs, and beyond the machine word (straddling sys.maxsize = 2^63 - 1, 2^64,
        # 10^30, very negative): integers are unbounded in Python and in the model (the driver moves decimal text)
        d = rnd.choice([-rnd.randint(4, 15), -rnd.randint(4, 15), 2 ** 31 - 3, 1700000000000, 2 ** 61 - 4, 2 ** 63 - 3, 2 ** 64 + 1, 10 ** 30, -(2 ** 63) - 2])
        hist = [tuple(shift_op(o, d)) for o in hist]
        classes.append('negative_instants' if d < 0 else 'huge_instants')
    return dict(directed=directed, removal=removal, hist=pre + hist, classes=classes,
                family=family or rnd.choice(['int', 'int', 'str', 'tuple', 'sym', 'fset', 'obj', 'float']), functional=rnd.choice([0, 0, 0, 1, 1, 2]))


def known_nodes(hist, results=None):
    """nodes that exist after the history (a rejected t=None call creates nothing)"""
    ns = []
    for op in hist:
        if op[0] == 'add' and op[4] is not None:
            for x in (op[2], op[3]):
                if x not in ns:
                    ns.append(x)
        elif op[0] == 'addnode' and op[2] not in ns:
            ns.append(op[2])
        elif op[0] == 'bulk3' and op[2] is not None:
            for p in op[4]:
                for x in p[:2]:
                    if x not in ns:
                        ns.append(x)
        elif op[0] == 'bulk' and op[3] is not None:
            for p in op[5]:
                for x in (p if isinstance(p, tuple) else (p,)):
                    if x not in ns:
                        ns.append(x)
    return ns


def has_probes(r, ns, ts):
    return [('has', r, u, v, t) for t in ts for u in ns for v in ns]


def query_probes(r, ns, ts, directed, light=False):
    """every query entry point of C02 on register r"""
    ps = []
    sub = ns[:2] + [UNKNOWN]
    for t in ts:
        for n in ns + [UNKNOWN]:
            ps.append(('nbrs', r, 'neighbors', n, t))
            if directed:
                ps.append(('nbrs', r, 'predecessors', n, t))
            ps.append(('nbrs', r, 'all_neighbors', n, t))
            ps.append(('nbrs', r, 'non_neighbors', n, t))
            ps.append(('hasnode', r, n, t))
        for kind in (('degree', 'in_degree', 'out_degree') if directed else ('degree',)):
            ps.append(('deg', r, kind, t, None))
            ps.append(('deg', r, kind, t, sub))
            ps.append(('deg', r, kind, t, []))              # empty nbunch: nothing
            if ns:
                ps.append(('deg', r, kind, t, ('iter', ns[:3])))       # a one-shot iterator is a legal nbunch
                ps.append(('deg', r, kind, t, [ns[-1]]))
                ps.append(('deg', r, kind, t, ('one', ns[0])))   # scalar nbunch (node ids may be falsy: 0)
                ps.append(('deg', r, kind, t, ('one', ns[-1])))
        for kind in (('interactions', 'in_interactions', 'out_interactions') if directed else ('interactions',)):
            ps.append(('inter', r, kind, t, None))
            ps.append(('inter', r, kind, t, sub))
            ps.append(('inter', r, kind, t, []))
            if ns:
                ps.append(('inter', r, kind, t, [ns[-1]]))
        ps += [('nodes', r, t), ('nnodes', r, t), ('nint', r, None, t), ('size', r, t), ('density', r, t)]
        if ns:
            ps.append(('deghist', r, t))
        if not directed:
            ps.append(('nonint', r, t))
        if not light:
            for u in ns:
                for v in ns:
                    ps.append(('nint', r, (u, v), t))
    ps += [('isempty', r), ('ids', r)]
    for n in ns:
        ps.append(('nodesnaps', r, n))
    return ps


class Truth:
    """has_interaction answers of the implementation, per register, as static graphs"""

    def __init__(self, prog, ri):
        self.has = {}
        self.directed = {}
        self.nodes_flat = {}
        self.ids = {}
        for op, r in zip(prog, ri):
            if op[0] == 'has':
                self.has[(op[1], op[2], op[3], op[4])] = r
            elif op[0] == 'new':
                self.directed[op[1]] = bool(op[2])
            elif op[0] == 'slice' and r == 'Done':
                self.directed[op[2]] = self.directed.get(op[1], False)
            elif op[0] == 'todir' and r == 'Done':
                self.directed[op[2]] = True
            elif op[0] == 'toundir' and r == 'Done':
                self.directed[op[2]] = False
            elif op[0] == 'nodes' and op[2] is None and isinstance(r, list):
                self.nodes_flat[op[1]] = [n for n, a in r]
            elif op[0] == 'ids' and isinstance(r, list):
                self.ids[op[1]] = r
        self._cache = {}

    def static(self, r, t):
        """static graph {(u,v): has(u,v,t)} over the flattened node set"""
        key = (r, t)
        if key in self._cache:
            return self._cache[key]
        d = self.directed.get(r, False)
        G = nx.DiGraph() if d else nx.Graph()
        G.add_nodes_from(self.nodes_flat.get(r, []))
        for (rr, u, v, tt), val in self.has.items():
            if rr == r and tt == t and val is True:
                G.add_edge(u, v)
        self._cache[key] = G
        return G


# ----------------------------------------------------------------------------------------------------------
# aliasing between a graph and the graphs derived from it (C03, C06, C16): the derived graph must not follow when its
# SOURCE is extended afterwards.  Runs on registers 10 (a second copy of the source) and 11.. (derived), so that the
# property's own observations of registers 0.. are not disturbed.
# ----------------------------------------------------------------------------------------------------------
ALIAS_SRC = 10


def latest_ends(hist, directed):
    """end of the latest run of every pair, by the documented merge rule (steers the mutation probes only)"""
    from props.base import SpanTracker
    tr = SpanTracker(directed, True)
    for op in hist:
        if op[0] == 'add' and op[4] is not None and tr.expected_outcome(op[2], op[3], op[4], op[5]) == 'Done':
            tr.apply(op[2], op[3], op[4], op[5])
    return {k: max(s) for k, s in tr.pres.items() if s}


def alias_phase(hist, directed, ns, ts, derivations, ends):
    """derivations: list of (op-builder(dst) -> op, directed_of_result); ends: {pair: end of its latest run}"""
    S = ALIAS_SRC
    prog = [('new', S, directed, True)]
    prog += [(o[0], S) + tuple(o[2:]) for o in hist if o[0] in ('add', 'addnode', 'bulk')]
    regs = []
    for j, (mk, dres) in enumerate(derivations):
        r = S + 1 + j
        prog.append(mk(S, r))
        regs.append((r, dres))
    def observe():
        out = []
        for r, dres in regs:
            out += [('nodes', r, None)] + has_probes(r, ns, ts)
            out += [('inter', r, 'out_interactions' if dres else 'interactions', None, None), ('ids', r), ('stream', r)]
        return out
    prog += observe()
    prog.append(('isempty', S))                                   # sentinel: the source is extended from here on
    for (k, end_) in sorted(ends.items()):
        prog.append(('add', S, k[0], k[1], end_, end_ + 3))       # extends the latest run in place
        prog.append(('add', S, k[0], k[1], end_ + 9, None))       # and opens a new one
    prog += observe()
    return prog


def alias_oracle(prog, ri):
    fails = []
    S = ALIAS_SRC
    marks = [i for i, op in enumerate(prog) if op[0] == 'isempty' and op[1] == S]
    if not marks:
        return fails
    m = marks[-1]
    first = [(op, r) for op, r in zip(prog[:m], ri[:m]) if isinstance(op[1], int) and op[1] > S and op[0] in ('nodes', 'has', 'inter', 'ids', 'stream')]
    second = [(i, op, r) for i, (op, r) in enumerate(zip(prog, ri)) if i > m and isinstance(op[1], int) and op[1] > S and op[0] in ('nodes', 'has', 'inter', 'ids', 'stream')]
    if len(first) != len(second):
        return fails
    for (op1, r1), (i, op2, r2) in zip(first, second):
        if op1 == op2 and r1 != r2 and r1 != 'NOREG' and r2 != 'NOREG':
            fails.append(dict(index=i, op=list(op2), what='the derived graph changed when its source was extended afterwards: %r before, %r after' % (
                r1 if not isinstance(r1, list) else r1[:3], r2 if not isinstance(r2, list) else r2[:3])))
            break
    return fails


def run_cutting_window(rnd, hist):
    """a window that starts strictly INSIDE a multi-instant span of the history and ends a random distance later (inside the
    same run, a few runs later, far later): the window shapes a random pick over the probe instants rarely draws on a long
    timeline.  None when the history has no span of two instants or more."""
    spans = [(o[4], o[5]) for o in hist if o[0] == 'add' and o[4] is not None and o[5] is not None and o[5] - o[4] >= 2]
    if not spans:
        return None
    t, e = rnd.choice(spans)
    a = rnd.randint(t + 1, e - 1)
    return (a, a + rnd.choice([0, 1, 2, 5, 13, 40, 400, 2000]))
