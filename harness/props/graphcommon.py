"""Shared pieces for the properties that speak about graph states (C02-C08, C16): state generator,
probe builder, and the independent 'static graph' oracle computed from has_interaction answers."""
import networkx as nx
from fractions import Fraction
import gen
from props.base import tup, norm_key

UNKNOWN = 99


def state_case(rnd, removal=None, max_calls=10, family=None, malformed=0.0, isolated=True):
    directed = rnd.random() < 0.5
    if removal is None:
        removal = rnd.random() < 0.85
    hist, classes = gen.random_history(rnd, directed, n_calls=rnd.randint(1, max_calls), removal=removal,
                                       malformed=malformed, none_t=0.02)
    # force interesting shapes: self-loops, reciprocal pairs, isolated nodes
    if rnd.random() < 0.35:
        n = rnd.randint(1, 4)
        t = rnd.randint(0, 6)
        hist.insert(rnd.randint(0, len(hist)), ('add', 0, n, n, t, rnd.choice([None, t + 2])))
        classes.append('selfloop')
    if directed and hist and rnd.random() < 0.5:
        o = rnd.choice([h for h in hist if h[0] == 'add'])
        hist.append(('add', 0, o[3], o[2], (o[4] or 0) + rnd.randint(0, 2), rnd.choice([None, (o[4] or 0) + 3])))
        classes.append('reciprocal')
    pre = []
    if isolated and rnd.random() < 0.4:
        pre.append(('addnode', 0, 7, rnd.choice([0, 5])))
        classes.append('isolated')
    if rnd.random() < 0.25:
        nodes = gen.history_nodes(hist) or [1]
        pre.append(('addnode', 0, rnd.choice(nodes), rnd.randint(1, 4)))
        classes.append('node_attr')
    if rnd.random() < 0.4:
        # falsy node id: relabel node 1 as 0
        z = lambda x: 0 if x == 1 else x
        hist = [(o[0], o[1], z(o[2]), z(o[3])) + tuple(o[4:]) if o[0] == 'add' else o for o in hist]
        pre = [(o[0], o[1], z(o[2])) + tuple(o[3:]) for o in pre]
        classes.append('node_id_zero')
    if rnd.random() < 0.15:
        from props.base import shift_op
        d = -rnd.randint(4, 15)
        hist = [tuple(shift_op(o, d)) for o in hist]
        classes.append('negative_instants')
    return dict(directed=directed, removal=removal, hist=pre + hist, classes=classes,
                family=family or rnd.choice(['int', 'int', 'str', 'tuple', 'sym']), functional=rnd.choice([0, 0, 0, 1, 1, 2]))


def known_nodes(hist, results=None):
    """nodes that exist after the history (a rejected t=None call creates nothing)"""
    ns = []
    for op in hist:
        if op[0] == 'add' and op[4] is not None:
            for x in (op[2], op[3]):
                if x not in ns:
                    ns.append(x)
        elif op[0] == 'addnode' and op[2] not in ns:
            ns.append(op[2])
        elif op[0] == 'bulk' and op[3] is not None:
            for p in op[5]:
                for x in (p if isinstance(p, tuple) else (p,)):
                    if x not in ns:
                        ns.append(x)
    return ns


def has_probes(r, ns, ts):
    return [('has', r, u, v, t) for t in ts for u in ns for v in ns]


def query_probes(r, ns, ts, directed, light=False):
    """every query entry point of C02 on register r"""
    ps = []
    sub = ns[:2] + [UNKNOWN]
    for t in ts:
        for n in ns + [UNKNOWN]:
            ps.append(('nbrs', r, 'neighbors', n, t))
            if directed:
                ps.append(('nbrs', r, 'predecessors', n, t))
            ps.append(('nbrs', r, 'all_neighbors', n, t))
            ps.append(('nbrs', r, 'non_neighbors', n, t))
            ps.append(('hasnode', r, n, t))
        for kind in (('degree', 'in_degree', 'out_degree') if directed else ('degree',)):
            ps.append(('deg', r, kind, t, None))
            ps.append(('deg', r, kind, t, sub))
            ps.append(('deg', r, kind, t, []))              # empty nbunch: nothing
            if ns:
                ps.append(('deg', r, kind, t, [ns[-1]]))
                ps.append(('deg', r, kind, t, ('one', ns[0])))   # scalar nbunch (node ids may be falsy: 0)
                ps.append(('deg', r, kind, t, ('one', ns[-1])))
        for kind in (('interactions', 'in_interactions', 'out_interactions') if directed else ('interactions',)):
            ps.append(('inter', r, kind, t, None))
            ps.append(('inter', r, kind, t, sub))
            ps.append(('inter', r, kind, t, []))
            if ns:
                ps.append(('inter', r, kind, t, [ns[-1]]))
        ps += [('nodes', r, t), ('nnodes', r, t), ('nint', r, None, t), ('size', r, t), ('density', r, t)]
        if ns:
            ps.append(('deghist', r, t))
        if not directed:
            ps.append(('nonint', r, t))
        if not light:
            for u in ns:
                for v in ns:
                    ps.append(('nint', r, (u, v), t))
    ps += [('isempty', r), ('ids', r)]
    for n in ns:
        ps.append(('nodesnaps', r, n))
    return ps


class Truth:
    """has_interaction answers of the implementation, per register, as static graphs"""

    def __init__(self, prog, ri):
        self.has = {}
        self.directed = {}
        self.nodes_flat = {}
        self.ids = {}
        for op, r in zip(prog, ri):
            if op[0] == 'has':
                self.has[(op[1], op[2], op[3], op[4])] = r
            elif op[0] == 'new':
                self.directed[op[1]] = bool(op[2])
            elif op[0] == 'slice' and r == 'Done':
                self.directed[op[2]] = self.directed.get(op[1], False)
            elif op[0] == 'todir' and r == 'Done':
                self.directed[op[2]] = True
            elif op[0] == 'toundir' and r == 'Done':
                self.directed[op[2]] = False
            elif op[0] == 'nodes' and op[2] is None and isinstance(r, list):
                self.nodes_flat[op[1]] = [n for n, a in r]
            elif op[0] == 'ids' and isinstance(r, list):
                self.ids[op[1]] = r
        self._cache = {}

    def static(self, r, t):
        """static graph {(u,v): has(u,v,t)} over the flattened node set"""
        key = (r, t)
        if key in self._cache:
            return self._cache[key]
        d = self.directed.get(r, False)
        G = nx.DiGraph() if d else nx.Graph()
        G.add_nodes_from(self.nodes_flat.get(r, []))
        for (rr, u, v, tt), val in self.has.items():
            if rr == r and tt == t and val is True:
                G.add_edge(u, v)
        self._cache[key] = G
        return G
