"""C04 - snapshot ids are the inhabited instants; per-snapshot counts are exact."""
import gen
from props.base import PropBase, tup
from props.graphcommon import state_case, known_nodes, has_probes, Truth
from props.suboracles import o_snap


class C04(PropBase):
    id = 'C04'
    obs = {'ids', 'ips', 'avgnodes', 'nnodes', 'add'}
    rule = ('history as in C01 (removal enabled, interval spans, re-adds, overlaps); temporal_snapshots_ids(), interactions_per_snapshots(t) '
            'at every instant of min-1..max+2, interactions_per_snapshots(), avg_number_of_nodes() compared with counts derived from '
            'has_interaction answers. non-trivial = history with an interval span or a re-add of a present instant')

    def scopes(self, tier):
        return ['E1 (one pair, <= %d calls) and E2 (4 pair shapes, <= 2 calls, t in 0..%d), both classes' % ((2, 2) if tier == 'quick' else (3, 3))]

    def exhaustive_cases(self, tier):
        for directed in (False, True):
            for h in gen.exhaustive_E1(max_len=2 if tier == 'quick' else 3):
                yield dict(directed=directed, removal=True, hist=h, family='int', functional=False)
            for i, h in enumerate(gen.exhaustive_E2(max_len=2, tmax=2 if tier == 'quick' else 3)):
                if tier != 'quick' or i % 2 == 0:
                    yield dict(directed=directed, removal=True, hist=h, family='int', functional=(i % 2 == 0))

    def n_random(self, tier):
        return 1500 if tier == 'quick' else 150000

    def random_cases(self, rnd, n):
        for i in range(n):
            c = state_case(rnd, removal=True, max_calls=12)
            if i % 12 == 5:
                # add_interactions_from fed with 3-tuples (u, v, {'t': ...}), as when the interactions() of another graph
                # are added at time t: whatever that means for presence, ids and counts must still describe presence.
                # No property fixes the meaning, so the model is not consulted (oracle only).
                ns = gen.history_nodes(c['hist']) or [1, 2]
                ts = gen.history_times(c['hist']) or [0]
                lo, hi = min(ts), max(ts)
                rows = []
                for _k in range(rnd.randint(1, 3)):
                    a = rnd.randint(lo, hi + 2)
                    rows.append((rnd.choice(ns), rnd.choice(ns), a, a + rnd.randint(0, 3)))
                t = rnd.randint(lo, hi + 2)
                c['hist'].insert(rnd.randint(0, len(c['hist'])), ('bulk3', 0, t, rnd.choice([None, t + 2]), rows))
                c['nomodel'] = True
            yield c

    def program(self, case):
        hist = tup(case['hist'])
        prog = [('new', 0, case['directed'], True)] + hist
        ns = known_nodes(hist)
        ts = gen.probe_instants(hist)
        prog += [('nodes', 0, None)] + has_probes(0, ns, ts)
        prog += [('ids', 0), ('ips', 0, None), ('avgnodes', 0)]
        for t in ts:
            prog += [('ips', 0, t), ('nnodes', 0, t)]
        prog += [('ids', 0), ('ips', 0, None), ('avgnodes', 0)]      # asking about empty instants must not create them
        return prog

    def oracle(self, case, prog, ri):
        return o_snap(0, prog, ri, Truth(prog, ri))

    def nontrivial(self, case, prog, ri):
        seen = set()
        for op, r in zip(prog, ri):
            if op[0] == 'add' and r == 'Done' and op[4] is not None:
                if op[5] is not None and op[5] > op[4] + 1:
                    return True
                k = (min(op[2], op[3]), max(op[2], op[3]), op[4])
                if k in seen:
                    return True
                seen.add(k)
        return False


PROP = C04()
