"""C12 - every returned time-respecting path is a genuine one."""
import gen
from props.base import PropBase, tup
from props.pathscommon import graph_case, exhaustive_graphs, all_queries, base_program, World
from props.c15 import C15


class C12(C15):
    id = 'C12'
    obs = {'trp', 'alltrp'}
    rule = ('temporal graphs as in C15; time_respecting_paths(G,u,v,start,end) for every generated (u, v, window) and '
            'all_time_respecting_paths; every returned path is re-validated hop by hop against has_interaction / snapshot-id answers '
            '(first hop leaves u, chaining, strictly increasing times inside the window, presence, no immediate reversal, intermediate '
            'node alive at every snapshot id in between, last hop reaches v), plus tuple type, key (first,last) and absence of '
            'duplicates. non-trivial = a result with a path of >= 2 hops')

    def program(self, case):
        prog, ns, ts = base_program(case)
        for (u, v, a, b) in case['queries']:
            prog.append(('trp', 0, u, v, a, b))
        prog.append(('alltrp', 0, None, None, case.get('min_t')))
        return prog

    def oracle(self, case, prog, ri):
        fails = []
        W = World(prog, ri)
        for i, (op, r) in enumerate(zip(prog, ri)):
            if op[0] == 'trp':
                _, _, u, v, a, b = op
                win = W.window(a, b)
                if isinstance(r, str):
                    present = (u in W.nodes) if a is None else bool(W.nbrs(u, a)) or any(u in W.nbrs(x, a) for x in W.nodes)
                    if r == 'ValueError' and (win == 'ValueError'):
                        continue
                    fails.append(dict(index=i, op=list(op), what='time_respecting_paths gave %s' % r))
                    continue
                if win == 'ValueError':
                    if r != []:
                        fails.append(dict(index=i, op=list(op), what='improper window but paths were returned'))
                    continue
                for p in r:
                    why = W.valid(p, u, v, win)
                    if why:
                        fails.append(dict(index=i, op=list(op), what='returned path %r: %s' % (p, why)))
                        break
            elif op[0] == 'alltrp':
                if isinstance(r, str):
                    fails.append(dict(index=i, op=list(op), what='all_time_respecting_paths gave %s' % r))
                    continue
                win = W.window(None, None)
                for p in r:
                    why = W.valid(p, p[0][0], None, win if win != 'ValueError' else [])
                    if why:
                        fails.append(dict(index=i, op=list(op), what='returned path %r: %s' % (p, why)))
                        break
        return fails

    def nontrivial(self, case, prog, ri):
        return any(op[0] in ('trp', 'alltrp') and isinstance(r, list) and any(len(p) >= 2 for p in r) for op, r in zip(prog, ri))


PROP = C12()
