"""C18 - readers skip noise rows; timestamp compaction is an order-preserving bijection."""
import gen
from props.base import PropBase, bigio_case, with_bigio
from props.graphcommon import has_probes, Truth


def spell(rnd, x):
    """a decimal spelling of the integer x: usually str(x); sometimes another one int() reads as the same number (leading
    zeros, an explicit '+'), so that ONE instant or node may appear under two spellings in one file"""
    r = rnd.random()
    if r < 0.8:
        return str(x)
    if x >= 0:
        return rnd.choice(['0%d', '+%d', '00%d', '+0%d']) % x
    return '-0%d' % (-x)


def gen_file(rnd, kind, delim, malformed=False):
    """lines + the clean rows a reader must see, built from a row grammar"""
    d = ' ' if delim is None else delim
    lines, rows = [], []
    t = rnd.choice([rnd.randint(0, 3), rnd.randint(-6, -1)])      # negative timestamps too: then 0 is not the smallest
    latest = {}
    for _ in range(rnd.randint(2, 9)):
        r = rnd.random()
        u, v = rnd.randint(1, 3), rnd.randint(1, 3)
        t += rnd.choice([0, 1, 1, 2, 5])
        if kind == 'snap':
            e = rnd.choice([None, None, t + rnd.randint(1, 3)])
            f = [spell(rnd, u), spell(rnd, v), spell(rnd, t)] + ([] if e is None else [spell(rnd, e)])
            row = (u, v, t, e)
            if e is not None:
                t = e
        else:
            # a '-' only for a pair whose '+' row is really in the file (a log in which a '-' has no '+' before it is
            # outside the properties: C10 speaks of well-formed logs)
            o = '+' if (u, v) not in latest or rnd.random() < 0.6 else '-'
            f = [spell(rnd, u), spell(rnd, v), o, spell(rnd, t)]
            row = (u, v, o, t)
            if o == '+' and not (0.5 <= r < 0.70 or 0.88 <= r < 0.94 or (r >= 0.94 and malformed)):   # the branches below that drop the row
                latest[(u, v)] = t
        if r < 0.5:
            lines.append(d.join(f)); rows.append(row)
        elif r < 0.58:
            lines.append('#' + rnd.choice(['', ' a comment', ' 1 2 3']))
        elif r < 0.64:
            lines.append(rnd.choice(['', '   ', '\t']))
        elif r < 0.70:
            lines.append(d.join(f[:2]))                      # too few fields
        elif r < 0.80:
            lines.append(d.join(f) + rnd.choice([' #x', '#', ' # 9 9 9'])); rows.append(row)
        elif r < 0.88:
            lines.append('  ' + d.join(f) + '  '); rows.append(row)
        elif r < 0.94:
            extra = f + ['77', '88']
            lines.append(d.join(extra))
            if kind == 'snap':
                rows.append((u, v, int(extra[2]), int(extra[3])))  # the fourth column is read as the vanishing time
                t = max(t, int(extra[3]))
            # interaction format: != 4 fields -> skipped
        else:
            if malformed:
                bad = list(f)
                bad[rnd.choice([0, 1, len(f) - 1])] = rnd.choice(['x', '1.5', 'n1', '3a'])
                lines.append(d.join(bad)); rows.append('TYPEERROR')
            else:
                lines.append(d.join(f)); rows.append(row)
    return lines, rows


@with_bigio
class C18(PropBase):
    id = 'C18'
    obs = {'rtext', 'compact', 'has', 'stream', 'nodes'}
    rule = ('files generated from a row grammar (valid 3/4-column snapshot rows or 4-field interaction rows, comment-only, blank, '
            'whitespace-only, short rows, trailing comments, padded rows, extra columns) for delimiters None/" "/","/TAB/";", both formats, '
            'both classes, keys False/True; the graph read (presence at every instant + stream + nodes) must equal the graph read from the '
            'clean rows alone (keys=True: from the rows with every timestamp replaced by its rank); a separate malformed stream '
            '(unconvertible node / timestamp fields) must raise TypeError; compact_timeslot on integer sets (exhaustive subsets of a '
            'scaled 0..7, random big ints) must be the rank map. non-trivial = file with >= 1 noise line and >= 2 valid rows')

    def scopes(self, tier):
        return ['compact_timeslot on ALL subsets of {0..7} shifted by -3 and scaled by 5 (256 sets)']

    def exhaustive_cases(self, tier):
        # keys=True on files beyond 1 MiB (implementation side only): the pre-scan that collects the timestamps must see the whole file
        yield bigio_case(('snap', False, 130000, True, 'plain'))
        for m in range(256):
            s = [(i - 3) * 5 for i in range(8) if m >> i & 1]
            yield dict(kind='compact', values=s[::-1] if m % 2 else s)
        yield bigio_case(('int', True, 110000, True, 'plain'))
        if tier == 'thorough':
            yield bigio_case(('snap', True, 500000, True, 'plain'), ('int', False, 400000, True, 'plain'))

    def n_random(self, tier):
        return 2500 if tier == 'quick' else 200000

    def random_cases(self, rnd, n):
        for i in range(n):
            if i % 10 == 0:
                yield dict(kind='compact', values=rnd.sample(range(-10 ** 12, 10 ** 12), rnd.randint(0, 9)))
                continue
            kind = rnd.choice(['snap', 'int'])
            delim = rnd.choice([None, ' ', ',', '\t', ';'])
            lines, rows = gen_file(rnd, kind, delim, malformed=(i % 7 == 0))
            yield dict(kind=kind, delim=delim, lines=lines, rows=rows, directed=rnd.random() < 0.5, keys=rnd.random() < 0.4)

    def out_of_scope(self, op, impl, model):
        # a log in which a '-' row has no '+' row of its pair before it is outside the properties (C10: well-formed
        # logs); the generator avoids them, and what the reader does with one (KeyError today) is not compared
        return op[0] == 'rtext' and 'KeyError' in (impl, model)

    def program(self, case):
        if case['kind'] == 'compact':
            return [('compact', None, list(case['values']))]
        kind, delim, d, keys = case['kind'], case['delim'], case['directed'], case['keys']
        rows = [tuple(r) if r != 'TYPEERROR' else r for r in case['rows']]
        prog = [('rtext', 1, kind, d, '#', delim, keys, list(case['lines']))]
        clean = [r for r in rows if r != 'TYPEERROR']
        if keys:
            stamps = sorted({x for r in clean for x in ((r[2], r[3]) if kind == 'snap' else (r[3],)) if x is not None})
            rk = {s: i for i, s in enumerate(stamps)}
            clean = [(r[0], r[1], rk[r[2]], None if r[3] is None else rk[r[3]]) if kind == 'snap' else (r[0], r[1], r[2], rk[r[3]]) for r in clean]
        fmt = dict(delim=' ' if delim is None else delim, read_ws=delim is None)
        prog.append(('rsnap' if kind == 'snap' else 'rint', 2, d, clean, fmt))
        ts = [x for r in clean for x in ((r[2], r[3]) if kind == 'snap' else (r[3],)) if x is not None] or [0]
        tl = list(range(min(ts) - 1, max(ts) + 2))
        for reg in (1, 2):
            prog += [('nodes', reg, None)] + has_probes(reg, [1, 2, 3], tl) + [('stream', reg)]
        return prog

    def oracle(self, case, prog, ri):
        fails = []
        if case['kind'] == 'compact':
            vals = case['values']
            exp = sorted((v, i) for i, v in enumerate(sorted(vals)))
            if ri[0] != exp:
                fails.append(dict(index=0, op=['compact'], what='compact_timeslot %r, rank map %r' % (ri[0], exp)))
            return fails
        has_type_error = any(r == 'TYPEERROR' for r in case['rows'])
        r1, r2 = ri[0], ri[1]
        if has_type_error:
            # the first offending row decides unless an earlier row already failed otherwise
            if r1 == 'Done':
                fails.append(dict(index=0, op=['rtext'], what='unconvertible field was accepted'))
            return fails
        if r1 != r2:
            fails.append(dict(index=0, op=['rtext'], what='noisy file: %s, clean rows alone: %s' % (r1, r2)))
            return fails
        if r1 != 'Done':
            return fails
        o1 = [(op[0],) + tuple(op[2:]) + (jr,) for op, r in zip(prog, ri) for jr in [repr(r)] if op[1] == 1 and op[0] != 'rtext']
        o2 = [(op[0],) + tuple(op[2:]) + (jr,) for op, r in zip(prog, ri) for jr in [repr(r)] if op[1] == 2 and op[0] not in ('rsnap', 'rint')]
        if o1 != o2:
            diff = [(a, b) for a, b in zip(o1, o2) if a != b][:2]
            fails.append(dict(index=0, op=['rtext'], what='graph read from the noisy file differs from the graph of its clean rows: %r' % (diff,)))
        return fails

    def nontrivial(self, case, prog, ri):
        if case['kind'] == 'compact':
            return len(case['values']) >= 3
        rows = [r for r in case['rows'] if r != 'TYPEERROR']
        return len(rows) >= 2 and len(case['lines']) > len(case['rows'])

    def classify(self, case, prog, ri):
        if case['kind'] == 'compact':
            return {'compact:size%d' % min(len(case['values']), 9): 1}
        d = {'format:' + case['kind']: 1, 'delimiter:%r' % case['delim']: 1, 'keys:%s' % case['keys']: 1, 'outcome:' + str(ri[0]): 1}
        for ln in case['lines']:
            k = 'line:' + ('comment' if ln.strip().startswith('#') else 'blank' if not ln.strip() else 'trailing_comment' if '#' in ln else 'row')
            d[k] = d.get(k, 0) + 1
        return d

    def shrink_candidates(self, case):
        if case['kind'] == 'compact':
            v = case['values']
            for i in range(len(v)):
                yield dict(kind='compact', values=v[:i] + v[i + 1:])
            return
        return


PROP = C18()
