"""C09 - snapshot edge-list files round-trip the presence relation."""
import gen
from props.base import PropBase, bigio_case, with_bigio, tup
from props.graphcommon import state_case, known_nodes, has_probes, Truth
from props.suboracles import o_canon, pairs_of, pres_set

FMTS = [dict(delim=d, enc=e, target=t) for d in (' ', ',', '\t', ';') for e in ('utf-8', 'latin-1') for t in ('plain', 'gz', 'bz2', 'fileobj')]


def four_col_rows(rnd, nodes):
    rows, latest = [], {}
    for _ in range(rnd.randint(1, 6)):
        u, v = rnd.choice(nodes), rnd.choice(nodes)
        t = rnd.randint(0, 8) + max([0] + [b for (a, b) in latest.values()])
        e = rnd.choice([None, t + rnd.randint(1, 4)])
        rows.append((u, v, t, e))
        latest[(u, v)] = (t, t if e is None else e - 1)
    return rows


@with_bigio
class C09(PropBase):
    id = 'C09'
    obs = {'wsnap', 'wsnaptext', 'rtsnap', 'rsnap', 'has', 'inter'}
    rule = ('removal-enabled graph (both classes, reciprocal pairs, self-loops, multi-run timelines; int, ASCII string or non-ASCII string ids) written with '
            'write_snapshots to a path (plain/.gz/.bz2) or an open binary file object, delimiters " " "," TAB ";", encodings utf-8/latin-1; '
            'the decoded text must be exactly one row u<delim>v<delim>t per interaction and present instant (orientation kept when directed); '
            'read_snapshots of that output must give the same presence at every instant; generated four-column rows u v t e must read as '
            'the span t..e-1; one large graph per class (about 9 000 rows) against block-size effects. non-trivial = graph with a '
            'multi-run timeline or a reciprocal directed pair')
    validated_only = ['open_file decorator dispatch on .gz/.bz2, already-open binary file objects and the byte encoding are exercised, not modelled']

    def scopes(self, tier):
        return ['E2 histories (4 pair shapes, <= 2 calls, t in 0..2), both classes, one format each%s' % ('' if tier == 'thorough' else ' (every 6th)')]

    def exhaustive_cases(self, tier):
        # LARGE files: buffering / chunking / size-hint defects of writers and readers only show beyond a block size
        # (4 096 rows, 64 KiB, 1 MiB, 4 MiB ...): one graph of about 9 000 rows per class probed instant by instant on
        # the thorough tier, and multi-megabyte round trips (implementation side only) on every tier
        yield bigio_case(('snap', False, 450000, False, 'plain'))
        yield bigio_case(('span-file', False, 1050000, 1700000000))
        if tier == 'thorough':
            for directed in (False, True):
                yield dict(directed=directed, removal=True, hist=[('add', 0, 1, 2, 0, 4700), ('add', 0, 2, 1, 4800, 9100)],
                           family='int', functional=False, fmt=FMTS[5 if directed else 18], rows4=[])
            yield bigio_case(('snap', True, 700000, False, 'bz2'), ('snap', False, 700000, False, 'fileobj'))
        step = 1 if tier == 'thorough' else 6
        for directed in (False, True):
            for i, h in enumerate(gen.exhaustive_E2(max_len=2, tmax=2)):
                if i % step == 0:
                    yield dict(directed=directed, removal=True, hist=h, family='int', functional=False, fmt=FMTS[i % len(FMTS)], rows4=[])
        yield bigio_case(('snap', True, 450000, False, 'gz'), ('snap', True, 6000, False, 'fileobj'), ('snap', False, 70000, False, 'bz2'))

    def n_random(self, tier):
        return 400 if tier == 'quick' else 20000

    def random_cases(self, rnd, n):
        for _ in range(n):
            c = state_case(rnd, removal=True, max_calls=9, family=rnd.choice(['int', 'int', 'str', 'ustr', 'lb']), isolated=False)
            c['fmt'] = rnd.choice(FMTS)
            c['rows4'] = four_col_rows(rnd, [1, 2, 3])
            yield c

    def program(self, case):
        hist = tup(case['hist'])
        d = case['directed']
        fmt = case['fmt']
        prog = [('new', 0, d, True)] + hist
        ns = known_nodes(hist)
        ts = gen.probe_instants(hist)
        prog += [('nodes', 0, None)] + has_probes(0, ns, ts)
        prog += [('wsnap', 0, fmt)]
        if case.get('family', 'int') == 'int':
            prog += [('wsnaptext', 0, fmt['delim'])]
        prog += [('rtsnap', 0, 1, fmt), ('nodes', 1, None)] + has_probes(1, ns, ts)
        prog += [('inter', 1, 'out_interactions' if d else 'interactions', None, None)]
        rows4 = [tuple(r) for r in case.get('rows4', [])]
        if rows4:
            ts4 = list(range(-1, max([r[2] for r in rows4] + [r[3] for r in rows4 if r[3] is not None]) + 2))
            prog += [('rsnap', 2, d, rows4, fmt), ('nodes', 2, None)] + has_probes(2, [1, 2, 3], ts4)
        return prog

    def oracle(self, case, prog, ri):
        fails = []
        T = Truth(prog, ri)
        d = case['directed']
        for i, (op, r) in enumerate(zip(prog, ri)):
            if op[0] == 'wsnap':
                if not isinstance(r, list):
                    fails.append(dict(index=i, op=['wsnap'], what='writer: %r' % (r,)))
                    continue
                exp = sorted((u, v, t) for (rr, u, v, t), val in T.has.items() if rr == 0 and val is True and t is not None)
                got = list(r)
                if not d:
                    # each undirected interaction once, under either orientation
                    exp = sorted(set((min(u, v), max(u, v), t) for (u, v, t) in exp))
                    got = sorted((min(u, v), max(u, v), t) for (u, v, t) in got)
                if got != exp:
                    fails.append(dict(index=i, op=['wsnap'], what='rows %r, presence gives %r' % (got[:8], exp[:8])))
            elif op[0] == 'rtsnap':
                if r != 'Done':
                    fails.append(dict(index=i, op=['rtsnap'], what='reading back raised %s' % r))
            elif op[0] == 'rsnap':
                if r != 'Done':
                    fails.append(dict(index=i, op=['rsnap'], what='four-column rows raised %s' % r))
            elif op[0] == 'has' and op[1] == 1 and op[4] is not None:
                src = T.has.get((0, op[2], op[3], op[4]))
                if r != src:
                    fails.append(dict(index=i, op=list(op), what='read back presence %r, written graph %r' % (r, src)))
            elif op[0] == 'has' and op[1] == 2 and op[4] is not None:
                rows4 = [tuple(x) for x in case.get('rows4', [])]
                key = lambda a, b: (a, b) if d else (min(a, b), max(a, b))
                exp = any(key(u, v) == key(op[2], op[3]) and (t == op[4] if e is None else t <= op[4] <= e - 1) for (u, v, t, e) in rows4)
                if r != exp:
                    fails.append(dict(index=i, op=list(op), what='four-column rows: presence %r, spans say %r' % (r, exp)))
        fails += o_canon(1, prog, ri, T)
        return fails

    def nontrivial(self, case, prog, ri):
        T = Truth(prog, ri)
        for p in pairs_of(T, 0):
            s = sorted(pres_set(T, 0, p))
            if any(b - a > 1 for a, b in zip(s, s[1:])):
                return True
            if case['directed'] and p[0] != p[1] and (p[1], p[0]) in pairs_of(T, 0):
                return True
        return False


PROP = C09()
