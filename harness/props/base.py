"""Common behaviour of property modules: a case is a JSON-able dict
   {directed, removal, hist: [ops], family, functional, classes: [...], ...}."""
import json
import gen


def norm_key(directed, u, v):
    return (u, v) if directed or u <= v else (v, u)


def expand_bulk(op):
    """the element calls of a bulk helper, in order"""
    _, r, kind, t, e, l = op
    if kind == 'from':
        pairs = [tuple(p) for p in l]
    elif kind in ('path', 'fpath'):
        pairs = list(zip(l[:-1], l[1:]))
    elif kind in ('star', 'fstar'):
        pairs = [(l[0], x) for x in l[1:]] if l else []
    else:
        pairs = list(zip(l, l[1:] + [l[0]])) if l else []
    if kind in ('path', 'star', 'cycle'):
        e = None            # the methods take no vanishing time; the module-level helpers (f...) pass it on
    return [(u, v, t, e) for u, v in pairs]


class SpanTracker:
    """ground truth written from the property text: per pair the union of added spans"""

    def __init__(self, directed, removal=True):
        self.directed, self.removal = directed, removal
        self.pres = {}      # key -> set of instants
        self.named = set()  # keys ever added with a non-empty span
        self.nodes = []

    def latest_start(self, k):
        s = self.pres.get(k)
        if not s:
            return None
        m = max(s)
        while m - 1 in s:
            m -= 1
        return m

    def expected_outcome(self, u, v, t, e):
        if t is None:
            return 'NetworkXError'
        k = norm_key(self.directed, u, v)
        ls = self.latest_start(k)
        if ls is not None and t < ls:
            return 'ValueError'
        return 'Done'

    def apply(self, u, v, t, e):
        """apply an accepted call"""
        for n in (u, v):
            if n not in self.nodes:
                self.nodes.append(n)
        k = norm_key(self.directed, u, v)
        if e is None or not self.removal:
            span = [t]
        else:
            span = list(range(t, e))
        if span:
            self.pres.setdefault(k, set()).update(span)
            self.named.add(k)


class PropBase:
    id = 'C00'
    obs = None
    rule = ''
    trusted_base = [
        'Coq 8.16.1 kernel (coqc); vm_compute used for witnesses, native_compute not used',
        'extraction to OCaml (ExtrOcamlBasic only: bool, option, unit, list, prod, sumbool to OCaml types; inlined andb/orb/fst/snd; no Extract Constant of our own; Z/positive/nat stay inductive) and ocaml/driver.ml',
        'the hand-written model coq/theories/{Base,Graph,Derived,Encode}.v is tied to /repo only by the correspondence run of this check (differential testing, exhaustive inside the stated scopes)',
        'the Python harness: generators, implementation runner, canonicaliser and the oracle (executable reading of the property text)',
    ]
    assumptions = ['node ids are integers in the model; the implementation is driven with int / str / tuple ids through an injective map',
                   'PYTHONPATH=/repo (working tree), PYTHONHASHSEED=0']
    validated_only = []

    def scopes(self, tier):
        return []

    def exhaustive_cases(self, tier):
        return []

    def n_random(self, tier):
        return 1000 if tier == 'quick' else 20000

    def random_cases(self, rnd, n):
        return []

    def program(self, case):
        raise NotImplementedError

    def oracle(self, case, prog, ri):
        return []

    def nontrivial(self, case, prog, ri):
        return True

    def classify(self, case, prog, ri):
        d = {}
        for c in case.get('classes', []):
            d['call:' + c] = d.get('call:' + c, 0) + 1
        for op, r in zip(prog, ri):
            if op[0] in ('add', 'bulk', 'slice', 'todir', 'toundir'):
                k = 'outcome:%s:%s' % (op[0], r)
                d[k] = d.get(k, 0) + 1
        d['graphs:' + ('DynDiGraph' if case.get('directed') else 'DynGraph')] = 1
        d['ids:' + case.get('family', 'int')] = 1
        d['hist_len:%d' % min(len(case.get('hist', [])), 12)] = 1
        return d

    def shrink_candidates(self, case):
        h = case.get('hist', [])
        # drop one call
        for i in range(len(h)):
            c = dict(case)
            c['hist'] = h[:i] + h[i + 1:]
            c['classes'] = []
            yield c
        # simplify ids / forms
        if case.get('family', 'int') != 'int' or case.get('functional'):
            c = dict(case)
            c['family'] = 'int'
            c['functional'] = False
            yield c
        # shift times towards 0
        ts = gen.history_times([tuple(o) for o in h])
        if ts and min(ts) != 0:
            m = min(ts)
            c = dict(case)
            c['hist'] = [shift_op(o, -m) for o in h]
            yield c
        # shorten spans
        for i, o in enumerate(h):
            if o[0] == 'add' and o[5] is not None and o[4] is not None and o[5] > o[4] + 1:
                c = dict(case)
                hh = [list(x) for x in h]
                hh[i][5] = o[5] - 1
                c['hist'] = hh
                yield c


def shift_op(o, d):
    o = list(o)
    if o[0] == 'add':
        if o[4] is not None:
            o[4] += d
        if o[5] is not None:
            o[5] += d
    elif o[0] == 'bulk':
        if o[3] is not None:
            o[3] += d
        if o[4] is not None:
            o[4] += d
    return o


def tup(h):
    """JSON round trip turns tuples into lists: normalise ops back to tuples (inner pair lists too)"""
    out = []
    for o in h:
        o = list(o)
        if o[0] == 'bulk':
            o[5] = [tuple(x) if isinstance(x, (list, tuple)) else x for x in o[5]]
        out.append(tuple(o))
    return out


# ----------------------------------------------------------------------------------------------------------
# multi-megabyte file cases (C09, C10, C18): run on the implementation only (core.big_io_check), the model answers 'OK'
# ----------------------------------------------------------------------------------------------------------
def bigio_case(*args):
    return dict(kind='bigio', bigio=[list(a) for a in args], family='int', functional=False)


def with_bigio(cls):
    """class decorator: cases of kind 'bigio' get their own program / oracle; everything else is the class's own"""
    own = {k: getattr(cls, k) for k in ('program', 'oracle', 'nontrivial', 'classify', 'shrink_candidates')}
    big = lambda case: isinstance(case, dict) and case.get('kind') == 'bigio'

    def program(self, case):
        return [('bigio',) + tuple(a) for a in case['bigio']] if big(case) else own['program'](self, case)

    def oracle(self, case, prog, ri):
        if not big(case):
            return own['oracle'](self, case, prog, ri)
        return [dict(index=i, op=list(op), what='implementation-side-only case (%s): %s' % (op[1:], r))
                for i, (op, r) in enumerate(zip(prog, ri)) if r != 'OK']

    def nontrivial(self, case, prog, ri):
        return True if big(case) else own['nontrivial'](self, case, prog, ri)

    def classify(self, case, prog, ri):
        return {('long_runs:%s' % a[0] if str(a[0]).startswith('span-') else 'large_graph:%s' % a[0] if str(a[0]).startswith('dag-') else 'multi_megabyte_file:%s:%s' % (a[0], 'keys' if a[3] else 'plain')): 1 for a in case['bigio']} if big(case) else own['classify'](self, case, prog, ri)

    def shrink_candidates(self, case):
        if big(case):
            for a in case['bigio']:
                if len(case['bigio']) > 1:
                    yield dict(case, bigio=[a])
            return
        yield from own['shrink_candidates'](self, case)

    cls.program, cls.oracle, cls.nontrivial, cls.classify, cls.shrink_candidates = program, oracle, nontrivial, classify, shrink_candidates
    cls.obs = set(cls.obs) | {'bigio'}
    cls.rule = cls.rule + (' PLUS implementation-side-only cases (multi-megabyte files, runs of 150 000 instants at epoch-size '
                           'instants, graphs of 1 200 nodes): sizes the list-based model cannot run, decided by the oracle alone (interval arithmetic / row counts).')
    return cls
