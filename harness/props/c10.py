"""C10 - interaction-list files replay the event stream and round-trip presence."""
import gen
from props.base import PropBase, bigio_case, with_bigio, tup
from props.graphcommon import state_case, known_nodes, has_probes, Truth
from props.suboracles import pairs_of, pres_set, runs_of
from props.c09 import FMTS


def wellformed_log(rnd, directed):
    """a chronological log in which every '-' is preceded by a '+' of the same pair"""
    pairs = [(1, 2), (2, 1), (1, 3), (2, 2), (3, 4)]
    open_ = {}
    rows, t = [], rnd.randint(0, 3)
    for _ in range(rnd.randint(1, 12)):
        t += rnd.choice([0, 0, 1, 1, 2, 3])
        p = rnd.choice(pairs)
        k = p if directed else (min(p), max(p))
        if k in open_ and rnd.random() < 0.5 and t > open_[k]:
            rows.append((p[0], p[1], '-', t))
            del open_[k]
        else:
            rows.append((p[0], p[1], '+', t))
            open_[k] = t
    return rows


def replay(rows, directed):
    pres = {}
    cur = {}
    for (u, v, o, t) in rows:
        k = (u, v) if directed else (min(u, v), max(u, v))
        if o == '+':
            pres.setdefault(k, set()).add(t)
            cur[k] = min(cur.get(k, t), t) if k in cur else t
            cur.setdefault(k, t)
        else:
            if k in cur:
                # the pair stays present from its latest appearance through t-1
                start = max(x for x in pres[k] if True)
                # latest appearance = start of the latest maximal block
                s = sorted(pres[k])
                b = s[-1]
                a = b
                while a - 1 in pres[k]:
                    a -= 1
                pres[k].update(range(a, t))
    return pres


@with_bigio
class C10(PropBase):
    id = 'C10'
    obs = {'wint', 'winttext', 'rtint', 'rint', 'has', 'stream'}
    rule = ('removal-enabled graph (both classes; int, ASCII string or non-ASCII string ids) written with write_interactions (all delimiters / encodings / '
            'targets): rows must be the events of stream_interactions() in chronological order; reading back must give the same '
            'presence and the same stream; plus generated well-formed event logs (nested + +, - right after +, several pairs '
            'interleaved, either endpoint order) fed to read_interactions: presence must equal the replay of the log. '
            'non-trivial = log or graph with at least one "-"')

    def scopes(self, tier):
        return ['E1 histories (one pair, <= 2 calls, t in 0..4, e in {None,t+1..t+3}), both classes' + ('' if tier == 'thorough' else ' (every 3rd)')]

    def exhaustive_cases(self, tier):
        step = 1 if tier == 'thorough' else 3
        # multi-megabyte interaction lists (implementation side only): size-dependent defects of writer and reader
        yield bigio_case(('int', False, 320000, False, 'plain'))
        for directed in (False, True):
            for i, h in enumerate(gen.exhaustive_E1(max_len=2)):
                if i % step == 0:
                    yield dict(directed=directed, removal=True, hist=h, family='int', functional=False, fmt=FMTS[i % len(FMTS)], log=[])
        yield bigio_case(('int', True, 320000, False, 'fileobj'), ('int', False, 12000, False, 'gz'))
        if tier == 'thorough':
            yield bigio_case(('int', True, 500000, False, 'bz2'), ('int', False, 500000, True, 'plain'))

    def n_random(self, tier):
        return 500 if tier == 'quick' else 30000

    def random_cases(self, rnd, n):
        for _ in range(n):
            c = state_case(rnd, removal=True, max_calls=9, family=rnd.choice(['int', 'int', 'str', 'ustr', 'lb']), isolated=False)
            c['fmt'] = rnd.choice(FMTS)
            c['log'] = wellformed_log(rnd, c['directed'])
            yield c

    def out_of_scope(self, op, impl, model):
        # ill-formed logs ('-' without a '+' of the pair before it) are outside the quantifier
        return op[0] in ('rint',) and 'KeyError' in (impl, model)

    def program(self, case):
        hist = tup(case['hist'])
        d = case['directed']
        fmt = case['fmt']
        prog = [('new', 0, d, True)] + hist
        ns = known_nodes(hist)
        ts = gen.probe_instants(hist, pad_hi=3)
        prog += [('nodes', 0, None)] + has_probes(0, ns, ts) + [('stream', 0), ('wint', 0, fmt)]
        if case.get('family', 'int') == 'int':
            prog += [('winttext', 0, fmt['delim'])]
        prog += [('rtint', 0, 1, fmt), ('nodes', 1, None)] + has_probes(1, ns, ts) + [('stream', 1)]
        log = [tuple(r) for r in case.get('log', [])]
        if log:
            tl = list(range(min(r[3] for r in log) - 1, max(r[3] for r in log) + 2))
            prog += [('rint', 2, d, log, fmt), ('nodes', 2, None)] + has_probes(2, [1, 2, 3, 4], tl)
        return prog

    def oracle(self, case, prog, ri):
        fails = []
        T = Truth(prog, ri)
        d = case['directed']
        streams = {op[1]: r for op, r in zip(prog, ri) if op[0] == 'stream'}
        idx = {op[0] + str(op[1]): i for i, op in enumerate(prog) if op[0] in ('stream',)}
        # does the written graph have an unclosed two-instant run (finding of C05)?
        two = False
        if isinstance(streams.get(0), list):
            minus = {(t, p) for (t, p, o) in streams[0] if o == '-'}
            for p in pairs_of(T, 0):
                for (a, b) in runs_of(pres_set(T, 0, p)):
                    if b == a + 1 and (b + 1, p) not in minus:
                        two = True
        trig = 'unclosed_two_instant_run' if two else None
        for i, (op, r) in enumerate(zip(prog, ri)):
            if op[0] == 'wint':
                if not isinstance(r, list):
                    fails.append(dict(index=i, op=['wint'], what='writer: %r' % (r,)))
                elif r != streams.get(0):
                    fails.append(dict(index=i, op=['wint'], what='rows %r are not the stream %r' % (r[:6], (streams.get(0) or [])[:6])))
            elif op[0] == 'rtint' and r != 'Done':
                fails.append(dict(index=i, op=['rtint'], what='reading back raised %s' % r, trigger=trig))
            elif op[0] == 'rint' and r != 'Done':
                fails.append(dict(index=i, op=['rint'], what='well-formed log raised %s' % r))
            elif op[0] == 'has' and op[1] == 1 and op[4] is not None:
                src = T.has.get((0, op[2], op[3], op[4]))
                if r != src:
                    fails.append(dict(index=i, op=list(op), what='read back presence %r, written graph %r' % (r, src), trigger=trig))
            elif op[0] == 'stream' and op[1] == 1:
                if r != streams.get(0):
                    fails.append(dict(index=i, op=list(op), what='read back stream differs from the written one', trigger=trig))
            elif op[0] == 'has' and op[1] == 2 and op[4] is not None:
                log = [tuple(x) for x in case.get('log', [])]
                pres = replay(log, d)
                k = (op[2], op[3]) if d else (min(op[2], op[3]), max(op[2], op[3]))
                exp = op[4] in pres.get(k, ())
                if r != exp:
                    fails.append(dict(index=i, op=list(op), what='log replay says %r, reader gives %r' % (exp, r)))
        return fails

    def nontrivial(self, case, prog, ri):
        for op, r in zip(prog, ri):
            if op[0] == 'stream' and op[1] == 0 and isinstance(r, list) and any(o == '-' for (_, _, o) in r):
                return True
        return any(x[2] == '-' for x in case.get('log', []))


PROP = C10()
