"""C17 - temporal statistics equal their stream-graph definitions."""
import itertools
from fractions import Fraction
import gen
from props.base import PropBase, tup
from props.graphcommon import state_case, known_nodes, has_probes, Truth
from props.suboracles import pairs_of, pres_set


class C17(PropBase):
    id = 'C17'
    obs = {'stat', 'iet', 'ids'}
    rule = ('DynGraph without self-loops (removal enabled; interval spans, nodes that disappear and reappear, isolated nodes) for the '
            'eleven ratio measures, both classes for the inter-event distributions; every measure is recomputed from has_interaction / '
            'snapshot-id answers by its set-theoretic definition (coverage = sum_t |V_t| / (|T||V|), density = sum_{u<v}|T_uv| / '
            'sum_{u<v}|T_u & T_v|, ...) as an exact fraction and compared; range [0,1]; inter-event histograms are recomputed from the '
            'stream, with mass = #events-1 and weighted sum = last-first. non-trivial = graph with an interval span of >= 3 instants and '
            'a node that disappears and reappears')
    validated_only = ['IEEE rounding of the final division (the exact ratio is recovered from the float, denominators < 10^7)']

    def scopes(self, tier):
        return ['E2-like histories over pairs (1,2),(2,1),(1,3),(2,3), <= 2 calls, t in 0..2, e in {None,t+1,t+2}, DynGraph' + ('' if tier == 'thorough' else ' (every 3rd)')]

    def exhaustive_cases(self, tier):
        calls = [(u, v, t, e) for (u, v) in [(1, 2), (2, 1), (1, 3), (2, 3)] for t in range(3) for e in (None, t + 1, t + 2)]
        k = 0
        for L in (1, 2):
            for h in itertools.product(calls, repeat=L):
                k += 1
                if tier == 'quick' and k % 3:
                    continue
                yield dict(directed=False, removal=True, hist=[('add', 0, u, v, t, e) for (u, v, t, e) in h], family='int', functional=False)

    def n_random(self, tier):
        return 500 if tier == 'quick' else 30000

    def random_cases(self, rnd, n):
        for i in range(n):
            c = state_case(rnd, removal=True, max_calls=9, family=rnd.choice(['int', 'int', 'str', 'sym']))
            c['hist'] = [o for o in c['hist'] if not (o[0] == 'add' and o[2] == o[3])]
            if not any(o[0] == 'add' for o in c['hist']):
                c['hist'].append(('add', 0, 1, 2, 0, 3))
            yield c

    def out_of_scope(self, op, impl, model):
        # the ratio measures are stated for non-zero denominators only: what happens on a zero denominator
        # (ZeroDivisionError today) is not part of the property
        return op[0] == 'stat' and 'ZeroDivisionError' in (impl, model)

    def program(self, case):
        hist = tup(case['hist'])
        d = case['directed']
        prog = [('new', 0, d, True)] + hist
        ns = known_nodes(hist)
        ts = gen.probe_instants(hist)
        prog += [('nodes', 0, None), ('ids', 0)] + has_probes(0, ns, ts) + [('stream', 0)]
        if not d:
            prog += [('stat', 0, w, None, None) for w in ('coverage', 'uniformity', 'density')]
            for u in ns:
                prog += [('stat', 0, w, u, None) for w in ('node_contribution', 'node_density', 'node_presence')]
                for v in ns:
                    if u != v:
                        prog += [('stat', 0, w, u, v) for w in ('edge_contribution', 'node_pair_uniformity', 'pair_density')]
            for t in ts:
                prog.append(('stat', 0, 'snapshot_density', t, None))
        if not d:
            # the statistics are queries: evaluating them (snapshot_density at non-snapshot instants included) must not
            # change what the others answer -- re-observe
            prog += [('ids', 0), ('stat', 0, 'coverage', None, None)] + [('stat', 0, 'node_contribution', u, None) for u in ns[:2]]
        prog.append(('iet', 0, 'global', None))
        if d:
            prog += [('iet', 0, 'outglobal', None), ('iet', 0, 'inglobal', None)]
        for u in ns:
            prog.append(('iet', 0, 'node', u))
            if d:
                prog += [('iet', 0, 'out', u), ('iet', 0, 'in', u)]
        return prog

    def oracle(self, case, prog, ri):
        fails = []
        T = Truth(prog, ri)
        d = case['directed']
        ids = T.ids.get(0, [])
        V = T.nodes_flat.get(0, [])
        P = pairs_of(T, 0)
        Tuv = {p: pres_set(T, 0, p) & set(ids) for p in P}
        Tu = {u: set() for u in V}
        for (a, b), s in Tuv.items():
            Tu[a] |= s
            Tu[b] |= s
        deg = lambda u, t: sum(1 for (a, b), s in Tuv.items() if t in s and u in (a, b))
        key = lambda u, v: (u, v) if d or u <= v else (v, u)
        stream = next((r for op, r in zip(prog, ri) if op[0] == 'stream'), [])

        def frac(n, m):
            return 'ZeroDivisionError' if m == 0 else Fraction(n, m)

        first = {}
        for i, (op, r) in enumerate(zip(prog, ri)):
            if op[0] in ('ids', 'stat'):
                qk = repr(op)
                if qk in first and first[qk] != r:
                    fails.append(dict(index=i, op=list(op), what='the same query answered %r earlier and %r now: a query changed the graph' % (first[qk], r)))
                first.setdefault(qk, r)
        for i, (op, r) in enumerate(zip(prog, ri)):
            if op[0] == 'stat':
                _, _, w, u, v = op
                exp = None
                if w == 'coverage':
                    exp = frac(sum(len([x for x in V if t in Tu[x]]) for t in ids), len(ids) * len(V))
                elif w == 'node_contribution':
                    exp = frac(len(Tu[u]), len(ids))
                elif w == 'edge_contribution':
                    exp = frac(len(Tuv[key(u, v)]), len(ids)) if key(u, v) in Tuv else 'KeyError'
                elif w == 'node_pair_uniformity':
                    exp = frac(len(Tu[u] & Tu[v]), len(Tu[u] | Tu[v]))
                elif w == 'uniformity':
                    cs = list(itertools.combinations(V, 2))
                    exp = frac(sum(len(Tu[a] & Tu[b]) for a, b in cs), sum(len(Tu[a] | Tu[b]) for a, b in cs))
                elif w == 'density':
                    cs = list(itertools.combinations(V, 2))
                    exp = frac(sum(len(Tuv.get(key(a, b), ())) for a, b in cs), sum(len(Tu[a] & Tu[b]) for a, b in cs))
                elif w == 'pair_density':
                    m = len(Tu[u] & Tu[v])
                    exp = Fraction(0) if m == 0 else Fraction(len(Tuv.get(key(u, v), ())), m)
                elif w == 'node_density':
                    m = sum(len(Tu[x] & Tu[u]) for x in V)
                    exp = Fraction(0) if m == 0 else Fraction(sum(deg(u, t) for t in Tu[u]), m)
                elif w == 'snapshot_density':
                    t = u
                    es = [p for p, s in Tuv.items() if t in s] if t in ids else [p for p in P if t in pres_set(T, 0, p)]
                    nn = len({x for p in es for x in p})
                    exp = Fraction(0) if (not es or nn <= 1) else Fraction(2 * len(es), nn * (nn - 1))
                elif w == 'node_presence':
                    exp = sorted(Tu[u])
                if 'ZeroDivisionError' in (exp, r):
                    continue        # zero denominator: outside the property, whatever the answer
                if exp is not None and r != exp:
                    fails.append(dict(index=i, op=list(op), what='%s = %r, definition gives %r' % (w, r, exp)))
                if isinstance(r, Fraction) and w not in ('node_density',) and not (0 <= r <= 1):
                    fails.append(dict(index=i, op=list(op), what='%s = %r outside [0,1]' % (w, r)))
            elif op[0] == 'iet':
                _, _, sel, u = op
                if not isinstance(stream, list):
                    continue
                evs = [t for (t, (a, b), o) in stream if sel in ('global', 'outglobal', 'inglobal') or (sel == 'node' and u in (a, b)) or
                       (sel == 'out' and a == u) or (sel == 'in' and b == u)]
                # undirected events keep the call's endpoint order: 'node' looks at both endpoints, so orientation is irrelevant
                gaps = [b - a for a, b in zip(evs, evs[1:])]
                exp = sorted((g, gaps.count(g)) for g in set(gaps))
                if r != exp:
                    fails.append(dict(index=i, op=list(op), what='inter-event distribution %r, stream gives %r' % (r, exp)))
                if isinstance(r, list) and evs:
                    if sum(c for _, c in r) != len(evs) - 1 or sum(g * c for g, c in r) != evs[-1] - evs[0]:
                        fails.append(dict(index=i, op=list(op), what='mass / weighted sum law violated'))
        return fails

    def nontrivial(self, case, prog, ri):
        T = Truth(prog, ri)
        long_span = any(o[0] == 'add' and o[5] is not None and o[4] is not None and o[5] - o[4] >= 3 for o in tup(case['hist']))
        ids = T.ids.get(0, [])
        reappear = False
        for u in T.nodes_flat.get(0, []):
            s = sorted({t for (r, a, b, t), v in T.has.items() if v is True and t in ids and u in (a, b)})
            if any(y - x > 1 and any(x < i < y for i in ids) for x, y in zip(s, s[1:])):
                reappear = True
        return long_span and reappear


PROP = C17()
