"""C01 - presence is exactly the union of the spans that were added (removal-enabled graphs)."""
import gen
from props.base import PropBase, bigio_case, with_bigio, SpanTracker, norm_key, expand_bulk, tup, shift_op


def random_bulk(rnd, nodes):
    kind = rnd.choice(['from', 'path', 'star', 'cycle', 'fpath', 'fstar', 'fcycle'])
    t = rnd.choice([None] + list(range(0, 8)) * 3)
    if kind == 'from':
        l = [tuple(rnd.choice(nodes) for _ in range(2)) for _ in range(rnd.randint(1, 4))]
        e = rnd.choice([None, None, (t or 0) + rnd.randint(1, 3)])
    else:
        l = [rnd.choice(nodes) for _ in range(rnd.randint(1, 5))]
        e = rnd.choice([None, (t or 0) + rnd.randint(1, 4)]) if kind[0] == 'f' else None
    return ('bulk', 0, kind, t, e, l)


@with_bigio
class C01(PropBase):
    id = 'C01'
    obs = {'add', 'bulk', 'has'}
    rule = ('history = sequence of add_interaction / bulk-helper calls chosen relative to the pair\'s latest run '
            '(before / equal start / inside / touching end / overlapping / adjacent / gap; point or interval; either endpoint '
            'order; self-loops; t=None; empty spans in a separate stream), probed with has_interaction on every ordered node pair '
            'at every instant of min-1..max+2 and with t omitted. distinct = distinct case JSON; non-trivial = some pair received '
            '>= 2 accepted calls with different spans')

    def scopes(self, tier):
        if tier == 'quick':
            return ['E1: one pair, all histories of <= 2 calls, t in 0..4, e in {None, t+1..t+3}, both classes',
                    'E2: pairs (1,2),(2,1),(1,3),(1,1), all histories of <= 2 calls, t in 0..2, e in {None,t+1,t+2}, both classes (sampled 1/3)']
        return ['E1: one pair, all histories of <= 3 calls, t in 0..4, e in {None, t+1..t+3} (8420 histories) incl. empty spans at length <= 2, both classes',
                'E2: pairs (1,2),(2,1),(1,3),(1,1), all histories of <= 2 calls, t in 0..3, e in {None,t+1,t+2}, both classes']

    def exhaustive_cases(self, tier):
        # runs of 150 000 instants at epoch-size instants (implementation side only, interval arithmetic at the boundaries)
        yield bigio_case(('span-core', False, 150000, 1700000000000), ('span-core', True, 150000, 2 ** 31 - 9))
        for directed in (False, True):
            if tier == 'quick':
                for h in gen.exhaustive_E1(max_len=2):
                    yield dict(directed=directed, removal=True, hist=h, family='int', functional=False)
                for i, h in enumerate(gen.exhaustive_E2(max_len=2, tmax=2)):
                    if i % 3 == 0:
                        yield dict(directed=directed, removal=True, hist=h, family='int', functional=False)
            else:
                for h in gen.exhaustive_E1(max_len=3):
                    yield dict(directed=directed, removal=True, hist=h, family='int', functional=False)
                for h in gen.exhaustive_E1(max_len=2, empty=True):
                    yield dict(directed=directed, removal=True, hist=h, family='int', functional=False)
                for h in gen.exhaustive_E2(max_len=2):
                    yield dict(directed=directed, removal=True, hist=h, family='int', functional=False)

    def n_random(self, tier):
        return 1500 if tier == 'quick' else 200000

    def random_cases(self, rnd, n):
        for i in range(n):
            directed = rnd.random() < 0.5
            hist, classes = gen.random_history(rnd, directed, malformed=(0.15 if i % 5 == 0 else 0.0))
            if rnd.random() < 0.3:
                nodes = gen.history_nodes(hist) or [1, 2]
                pos = rnd.randint(0, len(hist))
                hist.insert(pos, random_bulk(rnd, nodes + [9]))
                classes.append('bulk')
            if rnd.random() < 0.25:
                # instants of other magnitudes: negative, 2^31, epochs, around the machine word (sys.maxsize = 2^63 - 1) and far beyond
                d = rnd.choice([-rnd.randint(4, 15), 2 ** 31 - 3, 1700000000000, 2 ** 61 - 4, 2 ** 63 - 3, 2 ** 63 + 1000, 2 ** 64 + 1, 10 ** 30, -(2 ** 63) - 2])
                hist = [tuple(shift_op(o, d)) for o in hist]
                classes.append('negative_instants' if d < 0 else 'huge_instants')
            yield dict(directed=directed, removal=True, hist=hist, classes=classes,
                       family=rnd.choice(['int', 'int', 'str', 'tuple', 'mixed', 'fset', 'obj', 'float']), functional=rnd.random() < 0.3)

    def program(self, case):
        hist = tup(case['hist'])
        prog = [('new', 0, case['directed'], case['removal'])] + hist
        ns = gen.history_nodes(hist)
        for t in gen.probe_instants(hist) + [None]:
            for u in ns:
                for v in ns:
                    prog.append(('has', 0, u, v, t))
        return prog

    def oracle(self, case, prog, ri):
        fails = []
        tr = SpanTracker(case['directed'], True)
        degenerate = set()  # pairs only ever named through empty spans: flattened answer unspecified
        for i, (op, r) in enumerate(zip(prog, ri)):
            if op[0] == 'add':
                _, _, u, v, t, e = op
                exp = tr.expected_outcome(u, v, t, e)
                if r != exp:
                    fails.append(dict(index=i, op=list(op), what='outcome %s, the documented rule gives %s' % (r, exp)))
                if r == 'Done' and t is not None:
                    tr.apply(u, v, t, e)
                    if e is not None and e <= t:
                        degenerate.add(norm_key(case['directed'], u, v))
            elif op[0] == 'bulk':
                calls = expand_bulk(op)
                exp = 'Done'
                if op[3] is None:
                    exp = 'NetworkXError'
                    calls = []
                applied = []
                for (u, v, t, e) in calls:
                    x = tr.expected_outcome(u, v, t, e)
                    if x != 'Done':
                        exp = x
                        break
                    tr.apply(u, v, t, e)
                if r != exp:
                    fails.append(dict(index=i, op=list(op), what='bulk outcome %s, expected %s' % (r, exp)))
            elif op[0] == 'has':
                _, _, u, v, t = op
                k = norm_key(case['directed'], u, v)
                if t is None:
                    if k in tr.named:
                        exp = True
                    elif k in degenerate:
                        continue
                    else:
                        exp = False
                else:
                    exp = t in tr.pres.get(k, ())
                if r != exp:
                    fails.append(dict(index=i, op=list(op), what='has_interaction is %s, union of added spans says %s' % (r, exp)))
        return fails

    def nontrivial(self, case, prog, ri):
        spans = {}
        for op, r in zip(prog, ri):
            if op[0] == 'add' and r == 'Done' and op[4] is not None:
                k = norm_key(case['directed'], op[2], op[3])
                spans.setdefault(k, set()).add((op[4], op[5]))
        return any(len(s) >= 2 for s in spans.values())


PROP = C01()
