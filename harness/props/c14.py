"""C14 - annotate_paths selects exactly the optimal paths for each criterion."""
import itertools
from props.base import PropBase


def rand_path(rnd, maxlen=4, tmax=6, scale=None):
    n = rnd.randint(1, maxlen)
    ts = sorted(rnd.sample(range(0, tmax + 3), n))
    if scale is not None:
        # epoch-size instants (seconds .. nanoseconds): durations of 1e9 .. 1e18 that differ by one or two units
        base, stretch = scale
        ts = [base + t * stretch + (t % 3) for t in ts]
    nodes = [rnd.randint(1, 4) for _ in range(n + 1)]
    return [(nodes[i], nodes[i + 1], ts[i]) for i in range(n)]


class C14(PropBase):
    id = 'C14'
    obs = {'annotate'}
    rule = ('non-empty lists of paths (lists or tuples of (u,v,t) hops): random lists of 1..7 paths with ties on each criterion and '
            'duplicates forced by re-sampling, plus the exhaustive scope; each of the five returned classes is compared (as a set of hop '
            'sequences) with the direct argmin computed in Python, every returned path must be an input path, path_length/path_duration '
            'are re-computed. non-trivial = list with a tie on some criterion')

    def scopes(self, tier):
        return ['all lists of <= %d paths drawn from the 14 paths with <= 2 hops over nodes {1,2}, times in 0..2' % (2 if tier == 'quick' else 3)]

    def _alphabet(self):
        hops = [(1, 2, t) for t in range(3)] + [(2, 1, t) for t in range(3)]
        ps = [[h] for h in hops]
        for a in hops:
            for b in hops:
                if a[2] < b[2] and a[1] == b[0]:
                    ps.append([a, b])
        return ps

    def exhaustive_cases(self, tier):
        al = self._alphabet()
        for L in range(1, (2 if tier == 'quick' else 3) + 1):
            for k, combo in enumerate(itertools.product(al, repeat=L)):
                if L == 3 and k % 3:
                    continue
                yield dict(paths=[list(p) for p in combo], container='tuples' if L % 2 else 'lists')

    def n_random(self, tier):
        return 3000 if tier == 'quick' else 300000

    def random_cases(self, rnd, n):
        for _ in range(n):
            scale = None
            if rnd.random() < 0.25:
                scale = (rnd.choice([1700000000, 1700000000000, 1700000000000000000 // 1024, 0]), rnd.choice([10 ** 9, 10 ** 12, 2 * 10 ** 9 + 1]))
            ps = [rand_path(rnd, scale=scale) for _ in range(rnd.randint(1, 7))]
            if rnd.random() < 0.4:
                ps.append(list(rnd.choice(ps)))
            rnd.shuffle(ps)
            yield dict(paths=ps, container=rnd.choice(['lists', 'tuples']))

    def program(self, case):
        return [('annotate', case.get('container', 'lists'), [tuple(tuple(h) for h in p) for p in case['paths']])]

    def oracle(self, case, prog, ri):
        r = ri[0]
        ps = [tuple(tuple(h) for h in p) for p in case['paths']]
        if not isinstance(r, dict):
            return [dict(index=0, op=['annotate'], what='annotate_paths gave %r' % (r,))]
        L = lambda p: len(p)
        D = lambda p: p[-1][2] - p[0][2]
        A = lambda p: p[-1][2]
        def argmin(f, xs):
            m = min(f(x) for x in xs)
            return set(x for x in xs if f(x) == m)
        exp = dict(shortest=argmin(L, ps), fastest=argmin(D, ps), foremost=argmin(A, ps))
        exp['fastest_shortest'] = argmin(D, exp['shortest'])
        exp['shortest_fastest'] = argmin(L, exp['fastest'])
        fails = []
        for k, v in exp.items():
            got = set(r.get(k, []))
            if got != v:
                fails.append(dict(index=0, op=['annotate', k], what='%s = %r, argmin = %r' % (k, sorted(got), sorted(v))))
            if not got <= set(ps):
                fails.append(dict(index=0, op=['annotate', k], what='%s returns a path that is not an input path' % k))
        # how often a repeated input path is reported is not fixed by the property (today: kept under the primary
        # criteria, collapsed under the secondary ones): classes are compared as sets
        return fails

    def nontrivial(self, case, prog, ri):
        ps = [tuple(tuple(h) for h in p) for p in case['paths']]
        for f in (len, lambda p: p[-1][2] - p[0][2], lambda p: p[-1][2]):
            m = min(f(x) for x in ps)
            if sum(1 for x in ps if f(x) == m) >= 2:
                return True
        return False

    def classify(self, case, prog, ri):
        return {'npaths:%d' % len(case['paths']): 1, 'container:' + case.get('container', 'lists'): 1}

    def shrink_candidates(self, case):
        ps = case['paths']
        for i in range(len(ps)):
            if len(ps) > 1:
                c = dict(case)
                c['paths'] = ps[:i] + ps[i + 1:]
                yield c


PROP = C14()
