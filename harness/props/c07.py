"""C07 - a rejected update leaves no trace."""
import gen
from props.base import PropBase, tup, SpanTracker, expand_bulk
from props.graphcommon import state_case, known_nodes, has_probes, Truth
from props.c01 import random_bulk


def obs_ops(r, directed):
    return [('nodes', r, None), ('inter', r, 'out_interactions' if directed else 'interactions', None, None),
            ('ids', r), ('ips', r, None), ('stream', r), ('streamchk', r)]


class C07(PropBase):
    id = 'C07'
    obs = {'add', 'bulk', 'nodes', 'inter', 'ids', 'ips', 'stream'}
    rule = ('fault sequences: a history (both classes, both modes) in which rejected calls (start before the latest run\'s start, t=None, '
            'bulk helpers failing at a chosen element) are injected at every position; nodes, timelines, snapshot ids and counts and the '
            'stream are observed before and after EVERY call and must be identical around a rejected one; a twin graph that never saw the '
            'rejected calls (bulk: only the elements before the failing one) must end in the same observable state after the same legal '
            'continuation. non-trivial = a rejected call naming a node not yet in the graph or an instant without event')

    def scopes(self, tier):
        return ['every E1 state of <= %d calls x every call of the E1 alphabet (rejected ones included) x every 1-call continuation is part of '
                'E1 at length %d: all histories enumerated, both classes, both modes' % ((1, 3) if tier == 'thorough' else (1, 2))]

    def exhaustive_cases(self, tier):
        L = 3 if tier == 'thorough' else 2
        for directed in (False, True):
            for removal in (True, False):
                for i, h in enumerate(gen.exhaustive_E1(max_len=L, tmax=3, emax=2)):
                    if tier == 'thorough' and i % 2 and removal is False:
                        continue
                    # a fresh node in the rejected call makes the trace visible: variant with a third node appended
                    yield dict(directed=directed, removal=removal, hist=h, family='int', functional=False)

    def n_random(self, tier):
        return 2400 if tier == 'quick' else 160000      # every second case is a readd_case

    def random_cases(self, rnd, n):
        for i in range(n):
            if i < 6 or i % 400 == 7:
                yield self.bigbulk_case(rnd)
                continue
            if i % 2 == 1:
                yield self.readd_case(rnd)
                continue
            c = state_case(rnd, max_calls=8, isolated=False)
            h = c['hist']
            nodes = gen.history_nodes(tup(h)) or [1, 2]
            # inject rejected calls
            for _ in range(rnd.randint(1, 3)):
                adds = [o for o in h if o[0] == 'add' and o[4] is not None]
                pos = rnd.randint(0, len(h))
                kind = rnd.random()
                if kind < 0.25 or not adds:
                    h.insert(pos, ('add', 0, rnd.choice(nodes + [8]), rnd.choice(nodes + [9]), None, rnd.choice([None, 4])))
                elif kind < 0.55:
                    o = rnd.choice(adds)
                    h.append(('add', 0, o[2], o[3], o[4] - rnd.randint(1, 3), rnd.choice([None, o[4] + 5])))
                elif kind < 0.7:
                    # an EARLIER run of the pair added again, exactly or nearly (rejected once the pair has a later run):
                    # either endpoint order, same start, end = the old end + 0 / 1 / 2
                    o = rnd.choice(adds)
                    later = max([x[4] for x in adds if {x[2], x[3]} == {o[2], o[3]}] + [o[4]]) + rnd.randint(2, 5)
                    u, v = (o[2], o[3]) if rnd.random() < 0.5 else (o[3], o[2])
                    h.append(('add', 0, o[2], o[3], later, rnd.choice([None, later + 2])))
                    if rnd.random() < 0.5:      # some other pair's event right after the old run
                        h.append(('add', 0, rnd.choice(nodes), 14, o[4] + rnd.randint(1, 3), None))
                    h.append(('add', 0, u, v, o[4], (o[5] or o[4] + 1) + rnd.choice([0, 0, 1, 2])))
                else:
                    o = rnd.choice(adds)
                    h.append(('bulk', 0, 'from', o[4] - 1, rnd.choice([None, o[4] + 2]),
                              [(rnd.choice(nodes), 11), (o[2], o[3]), (12, 13)]))
            if rnd.random() < 0.3:
                h.insert(rnd.randint(0, len(h)), random_bulk(rnd, nodes + [10]))
            if rnd.random() < 0.25:
                # a bulk helper WITHOUT t (rejected): one to three nodes, some of them new -- nothing may be created
                kind = rnd.choice(['path', 'star', 'cycle', 'from', 'fstar', 'fcycle'])
                pool = nodes + [20, 21]
                l = ([tuple(rnd.choice(pool) for _ in range(2)) for _ in range(rnd.randint(1, 2))] if kind == 'from'
                     else [rnd.choice(pool) for _ in range(rnd.randint(1, 3))])
                h.insert(rnd.randint(0, len(h)), ('bulk', 0, kind, None, None, l))
            yield c

    def bigbulk_case(self, rnd):
        """a LARGE bulk call (hundreds of pairs over ~100 instants, tens of thousands of per-instant updates) rejected at an element in
        the middle: the state must be exactly the one after the preceding elements (snapshot ids and counts included)"""
        directed = rnd.random() < 0.4
        removal = rnd.random() < 0.8
        n = rnd.randint(180, 320)
        t = rnd.randint(0, 5)
        e = t + rnd.randint(95, 130)
        bad = rnd.randint(2, n - 2)
        kind = rnd.choice(['from', 'star', 'fstar', 'path', 'fpath'])
        h = [('add', 0, 1, 2, rnd.randint(0, 4), None)]
        if kind in ('from',):
            l = [(1000 + k, 2000 + k) for k in range(n)]
            u, v = l[bad]
        elif kind in ('star', 'fstar'):
            l = [500] + [1000 + k for k in range(n)]
            u, v = 500, l[bad]
        else:
            l = [1000 + k for k in range(n)]
            u, v = l[bad], l[bad + 1]
        # the pair of the failing element already has a later run
        h.append(('add', 0, u, v, t + rnd.randint(3, 200), None))
        h.append(('bulk', 0, kind, t, (e if kind in ('from', 'fstar', 'fpath') else None), l))
        h.append(('add', 0, 1, 2, e + 3, None))
        return dict(directed=directed, removal=removal, hist=h, classes=['big_bulk_rejected'], family=rnd.choice(['int', 'int', 'str']),
                    functional=0)

    def readd_case(self, rnd):
        """dense histories over two pairs and few instants in which a pair that has moved on to a later run is given one
        of its EARLIER runs again (exactly, or with a slightly different end): rejected, and nothing may change --
        whatever events other pairs have around the old run's end"""
        directed = rnd.random() < 0.4
        s = rnd.randint(0, 3)
        a, b = rnd.choice([((1, 2), (3, 4)), ((1, 2), (2, 3)), ((2, 1), (1, 3))])
        h = []
        old = rnd.choice(['points', 'points', 'interval', 'single'])
        if old == 'points':
            n = rnd.randint(2, 3)
            h += [('add', 0, a[0], a[1], s + k, None) for k in range(n)]
            end = s + n - 1
        elif old == 'interval':
            end = s + rnd.randint(1, 2)
            h.append(('add', 0, a[0], a[1], s, end + 1))
        else:
            end = s
            h.append(('add', 0, a[0], a[1], s, None))
        for _ in range(rnd.randint(0, 2)):
            t = rnd.randint(s, end + 3)
            h.insert(rnd.randint(0, len(h)), ('add', 0, b[0], b[1], t, rnd.choice([None, None, t + 2])))
        later = end + rnd.randint(2, 4)
        h.append(('add', 0, a[0], a[1], later, rnd.choice([None, later + 2])))
        if rnd.random() < 0.5:
            t = rnd.randint(s, end + 3)
            h.append(('add', 0, b[0], b[1], t, None))
        u, v = a if (directed or rnd.random() < 0.6) else (a[1], a[0])
        h.append(('add', 0, u, v, s, end + 1 + rnd.choice([0, 0, 0, 1, -1])))          # the old run again: rejected
        if rnd.random() < 0.5:
            h.append(('add', 0, a[0], a[1], later + 3, None))                           # a legal continuation
        return dict(directed=directed, removal=True, hist=h, classes=['earlier_run_again'], family=rnd.choice(['int', 'int', 'str']),
                    functional=rnd.choice([0, 0, 1]))

    def program(self, case):
        hist = tup(case['hist'])
        d, rem = case['directed'], case['removal']
        prog = [('new', 0, d, rem), ('new', 1, d, rem)] + obs_ops(0, d)
        tr = SpanTracker(d, rem)
        for op in hist:
            prog.append(op)
            prog += obs_ops(0, d)
            # twin: only what the documented rule accepts
            if op[0] == 'add':
                if tr.expected_outcome(op[2], op[3], op[4], op[5]) == 'Done':
                    tr.apply(op[2], op[3], op[4], op[5])
                    prog.append(('add', 1) + tuple(op[2:]))
            elif op[0] == 'addnode':
                prog.append(('addnode', 1) + tuple(op[2:]))
            elif op[0] == 'bulk' and op[3] is not None:
                for (u, v, t, e) in expand_bulk(op):
                    if tr.expected_outcome(u, v, t, e) != 'Done':
                        break
                    tr.apply(u, v, t, e)
                    prog.append(('add', 1, u, v, t, e))
        prog += obs_ops(1, d)
        return prog

    def oracle(self, case, prog, ri):
        fails = []
        nobs = len(obs_ops(0, case['directed']))
        last_obs = None
        last_call = None
        i = 0
        final0 = None
        while i < len(prog):
            op = prog[i]
            if op[0] == 'nodes' and op[1] == 0:
                block = ri[i:i + nobs]
                if last_call is not None and last_call[1] not in ('Done',) and last_obs is not None and block != last_obs:
                    diff = [(prog[i + j][0], a, b) for j, (a, b) in enumerate(zip(last_obs, block)) if a != b][:2]
                    fails.append(dict(index=last_call[0], op=list(prog[last_call[0]]),
                                      what='rejected call (%s) changed the graph: %r' % (last_call[1], diff)))
                if last_call is not None and last_call[2] == 'bulk' and last_call[1] != 'Done':
                    pass
                last_obs = block
                final0 = block
                last_call = None
                i += nobs
                continue
            if op[0] in ('add', 'bulk') and op[1] == 0:
                last_call = (i, ri[i], op[0])
                # a failing bulk helper may legitimately change the state (elements before the failing one): judged by the twin
                if op[0] == 'bulk' and ri[i] != 'Done' and op[3] is not None:
                    last_call = (i, 'Done', 'bulk')
            if op[0] == 'nodes' and op[1] == 1:
                twin = ri[i:i + nobs]
                if final0 is not None and twin != final0:
                    diff = [(prog[i + j][0], a, b) for j, (a, b) in enumerate(zip(final0, twin)) if a != b][:2]
                    fails.append(dict(index=i, op=list(op), what='graph that saw the rejected calls differs from its twin that never did: %r' % (diff,)))
                i += nobs
                continue
            i += 1
        return fails

    def nontrivial(self, case, prog, ri):
        seen_nodes = set()
        for op, r in zip(prog, ri):
            if op[1] != 0:
                continue
            if op[0] == 'add':
                if r != 'Done' and (op[2] not in seen_nodes or op[3] not in seen_nodes):
                    return True
                if r == 'Done':
                    seen_nodes.update((op[2], op[3]))
            if op[0] == 'bulk' and r != 'Done':
                return True
        return False


PROP = C07()
