"""C03 - timelines are canonical (sorted, disjoint, non-adjacent), on built and on derived graphs."""
import gen
from props.base import PropBase, bigio_case, with_bigio, tup
from props.graphcommon import run_cutting_window, state_case, known_nodes, has_probes, Truth, alias_phase, alias_oracle, latest_ends, ALIAS_SRC
from props.suboracles import o_canon


def tl_probes(r, ns, directed):
    ps = []
    for kind in (('interactions', 'in_interactions', 'out_interactions') if directed else ('interactions',)):
        if kind == 'interactions' and directed:
            continue  # the digraph's interactions() omits pairs (finding of C02); in_/out_ expose every timeline
        ps.append(('inter', r, kind, None, None))
        for n in ns:
            ps.append(('inter', r, kind, None, [n]))
    return ps


@with_bigio
class C03(PropBase):
    id = 'C03'
    obs = {'inter', 'has', 'slice', 'todir', 'toundir', 'add'}
    rule = ('history as in C01 (removal enabled) plus, per state, time_slice over 3 windows, to_directed / to_undirected (plain and '
            'reciprocal); the timelines exposed by interactions()/in_/out_interactions() (t omitted, with and without nbunch) are checked '
            'for start<=end, strict increase with an absent instant in between, union = has_interaction answers, and agreement between '
            'the two endpoints of an undirected pair. non-trivial = some exposed timeline has >= 2 runs')
    validated_only = ['read_snapshots / read_interactions / node_link_graph results are covered by the round-trip checks C09-C11 (same sub-oracle)']

    def scopes(self, tier):
        return ['E1 (one pair, <= %d calls, t in 0..4, e in {None,t+1..t+3}) x both classes, with the slice/conversion battery'
                % (2 if tier == 'quick' else 3)]

    def exhaustive_cases(self, tier):
        # runs of 150 000 instants at epoch-size instants (implementation side only, interval arithmetic at the boundaries)
        yield bigio_case(('span-core', False, 150000, 1700000000000), ('span-core', True, 150000, 2 ** 31 - 9))
        for directed in (False, True):
            for i, h in enumerate(gen.exhaustive_E1(max_len=2 if tier == 'quick' else 3)):
                if tier == 'quick' or i % 3 == 0:
                    yield dict(directed=directed, removal=True, hist=h, family='int', functional=False, win=[(1, 3), (0, 0), (2, 9)])

    def n_random(self, tier):
        return 800 if tier == 'quick' else 40000

    def random_cases(self, rnd, n):
        for _ in range(n):
            c = state_case(rnd, removal=True, max_calls=10, very_long=True)
            ts = gen.probe_instants(tup(c['hist']))
            c['win'] = [tuple(sorted((rnd.choice(ts), rnd.choice(ts)))) for _ in range(3)]
            w = run_cutting_window(rnd, tup(c['hist']))
            if w is not None and rnd.random() < 0.5:
                c['win'][rnd.randrange(3)] = w
            yield c

    def program(self, case):
        hist = tup(case['hist'])
        d = case['directed']
        prog = [('new', 0, d, True)] + hist
        ns = known_nodes(hist)
        ts = gen.probe_instants(hist)
        prog += [('nodes', 0, None)] + has_probes(0, ns, ts) + tl_probes(0, ns, d)
        reg = 1
        for (a, b) in case.get('win', []):
            prog += [('slice', 0, reg, a, b), ('nodes', reg, None)] + has_probes(reg, ns, ts) + tl_probes(reg, ns, d)
            reg += 1
        if d:
            for recip in (False, True):
                prog += [('toundir', 0, reg, recip), ('nodes', reg, None)] + has_probes(reg, ns, ts) + tl_probes(reg, ns, False)
                reg += 1
        else:
            prog += [('todir', 0, reg), ('nodes', reg, None)] + has_probes(reg, ns, ts) + tl_probes(reg, ns, True)
            reg += 1
        case['_nreg'] = reg
        # the derivations must leave the source's timelines canonical too (aliasing with the derived graphs)
        prog += tl_probes(0, ns, d)
        # ... and a derived graph must not follow when its source is extended afterwards
        ders = [((lambda a, b: (lambda s, r: ('slice', s, r, a, b)))(a, b), d) for (a, b) in case.get('win', [])[:1]]
        ders += [(lambda s, r: ('toundir', s, r, False), False), (lambda s, r: ('toundir', s, r, True), False)] if d else [(lambda s, r: ('todir', s, r), True)]
        prog += alias_phase(hist, d, ns, ts, ders, latest_ends(hist, d))
        return prog

    def oracle(self, case, prog, ri):
        T = Truth(prog, ri)
        fails = []
        regs = sorted({op[1] for op in prog if op[0] == 'inter' and op[1] < ALIAS_SRC})
        fails += alias_oracle(prog, ri)
        for r in regs:
            fails += o_canon(r, prog, ri, T)
        for i, (op, r) in enumerate(zip(prog, ri)):
            if op[0] in ('slice', 'todir', 'toundir') and r != 'Done':
                fails.append(dict(index=i, op=list(op), what='constructor raised %s' % r))
        return fails

    def nontrivial(self, case, prog, ri):
        return any(op[0] == 'inter' and isinstance(r, list) and any(len(tl) >= 2 for _, tl in r) for op, r in zip(prog, ri))


PROP = C03()
