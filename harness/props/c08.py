"""C08 - accumulative mode: interactions persist from first add to the last snapshot."""
import gen
from props.base import PropBase, tup, norm_key
from props.graphcommon import state_case, known_nodes, has_probes, query_probes, Truth, UNKNOWN
from props.c02 import expected as q_expected


class C08(PropBase):
    id = 'C08'
    obs = {'add', 'has', 'stream', 'ids', 'nbrs', 'deg', 'inter', 'nodes', 'nnodes', 'size', 'nint', 'hasnode', 'streamchk'}
    rule = ('history on DynGraph/DynDiGraph(edge_removal=False) with vanishing times, repeated adds and unrelated pairs raising the maximum '
            'snapshot id after a pair\'s last add; presence, stream, snapshot ids and the C02 queries are compared with: present from first '
            'accepted add to the largest snapshot id. non-trivial = an unrelated pair raises the maximum id after some pair\'s last add')

    def scopes(self, tier):
        return ['E2 (pairs (1,2),(2,1),(1,3),(1,1); <= 2 calls; t in 0..%d), both classes, edge_removal=False' % (2 if tier == 'quick' else 3),
                'E1 (one pair, <= %d calls)' % (2 if tier == 'quick' else 3)]

    def exhaustive_cases(self, tier):
        for directed in (False, True):
            for i, h in enumerate(gen.exhaustive_E2(max_len=2, tmax=2 if tier == 'quick' else 3)):
                yield dict(directed=directed, removal=False, hist=h, family='int', functional=(i % 2 == 0))
            for h in gen.exhaustive_E1(max_len=2 if tier == 'quick' else 3):
                yield dict(directed=directed, removal=False, hist=h, family='int', functional=False)

    def n_random(self, tier):
        return 800 if tier == 'quick' else 60000

    def random_cases(self, rnd, n):
        for _ in range(n):
            yield state_case(rnd, removal=False, max_calls=9)

    def program(self, case):
        hist = tup(case['hist'])
        d = case['directed']
        prog = [('new', 0, d, False)] + hist
        ns = known_nodes(hist)
        ts = gen.probe_instants(hist, pad_hi=3) + [None]
        prog += [('nodes', 0, None)] + has_probes(0, ns + [UNKNOWN], ts) + [('stream', 0), ('streamchk', 0), ('ids', 0)]
        prog += query_probes(0, ns, ts[::2] + [None], d, light=True)
        return prog

    def oracle(self, case, prog, ri):
        fails = []
        d = case['directed']
        first, accepted_ts = {}, set()
        for op, r in zip(prog, ri):
            if op[0] == 'add' and r == 'Done' and op[4] is not None:
                k = norm_key(d, op[2], op[3])
                first.setdefault(k, op[4])
                accepted_ts.add(op[4])
        mx = max(accepted_ts) if accepted_ts else None
        T = Truth(prog, ri)
        for i, (op, r) in enumerate(zip(prog, ri)):
            if op[0] == 'has':
                k = norm_key(d, op[2], op[3])
                if op[4] is None:
                    exp = k in first
                else:
                    exp = k in first and first[k] <= op[4] <= mx
                if r != exp:
                    fails.append(dict(index=i, op=list(op), what='has_interaction %r, accumulative presence says %r' % (r, exp)))
            elif op[0] == 'stream':
                exp = sorted((t, k, '+') for k, t in first.items())
                if r != exp:
                    fails.append(dict(index=i, op=list(op), what='stream %r, expected one + per pair at its first add: %r' % (r, exp)))
            elif op[0] == 'streamchk' and r != (True, True):
                fails.append(dict(index=i, op=list(op), what='stream order/repeats'))
            elif op[0] == 'ids':
                if r != sorted(accepted_ts):
                    fails.append(dict(index=i, op=list(op), what='snapshot ids %r, instants of accepted adds %r' % (r, sorted(accepted_ts))))
            elif op[0] in ('nbrs', 'deg', 'inter', 'nnodes', 'size', 'nint', 'hasnode') or (op[0] == 'nodes' and op[2] is not None):
                exp, trig = q_expected(op, T)
                got = r
                if op[0] == 'inter' and op[3] is None and isinstance(r, list):
                    got = [p for p, tl in r]
                if op[0] == 'nodes' and isinstance(r, list):
                    got = [n for n, a in r]
                if exp is not None and got != exp:
                    fails.append(dict(index=i, op=list(op), what='%r, static graph gives %r' % (got, exp), trigger=trig))
        return fails

    def nontrivial(self, case, prog, ri):
        last = {}
        order = []
        for op, r in zip(prog, ri):
            if op[0] == 'add' and r == 'Done' and op[4] is not None:
                order.append((norm_key(case['directed'], op[2], op[3]), op[4]))
        for j, (k, t) in enumerate(order):
            if any(k2 != k and t2 > t for (k2, t2) in order[j + 1:]) and not any(k2 == k for (k2, _) in order[j + 1:]):
                return True
        return False


PROP = C08()
