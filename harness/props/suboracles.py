"""Register-parametric oracles (written from the property texts) reused by C03-C06 and C16."""
from fractions import Fraction
from props.graphcommon import Truth


def pairs_of(T, r):
    d = T.directed.get(r, False)
    ps = set()
    for (rr, u, v, t), val in T.has.items():
        if rr == r and val is True and t is not None:
            ps.add((u, v) if d or u <= v else (v, u))
    return ps


def pres_set(T, r, p):
    return {t for (rr, u, v, t), val in T.has.items() if rr == r and val is True and t is not None and (u, v) == p}


def probe_range(T, r):
    ts = sorted({t for (rr, u, v, t) in T.has if rr == r and t is not None})
    return ts


def runs_of(s):
    out = []
    for t in sorted(s):
        if out and out[-1][1] == t - 1:
            out[-1][1] = t
        else:
            out.append([t, t])
    return [tuple(x) for x in out]


def o_canon(reg, prog, ri, T):
    """C03: exposed timelines canonical, union = presence, both directions of an undirected pair agree"""
    fails = []
    d = T.directed.get(reg, False)
    seen = {}
    for i, (op, r) in enumerate(zip(prog, ri)):
        if op[0] == 'inter' and op[1] == reg and op[3] is None and isinstance(r, list):
            for (p, tl) in r:
                ok = all(a <= b for a, b in tl) and all(tl[j][1] + 1 < tl[j + 1][0] for j in range(len(tl) - 1))
                if not ok:
                    fails.append(dict(index=i, op=list(op), what='timeline of %r not canonical: %r' % (p, tl)))
                exp = runs_of(pres_set(T, reg, p))
                if list(tl) != exp:
                    fails.append(dict(index=i, op=list(op), what='timeline of %r is %r, presence says %r' % (p, list(tl), exp)))
                if p in seen and seen[p] != tl:
                    fails.append(dict(index=i, op=list(op), what='pair %r exposes two different timelines %r / %r' % (p, seen[p], tl)))
                seen[p] = tl
    return fails


def o_snap(reg, prog, ri, T):
    """C04: ids = inhabited instants; counts exact; avg_number_of_nodes = mean of number_of_nodes(t)"""
    fails = []
    ps = pairs_of(T, reg)
    inhabited = sorted({t for p in ps for t in pres_set(T, reg, p)})
    count = {t: sum(1 for p in ps if t in pres_set(T, reg, p)) for t in probe_range(T, reg)}
    nn = {}
    for op, r in zip(prog, ri):
        if op[0] == 'nnodes' and op[1] == reg and op[2] is not None:
            nn[op[2]] = r
    for i, (op, r) in enumerate(zip(prog, ri)):
        if op[1:2] != (reg,):
            continue
        if op[0] == 'ids':
            if r != inhabited:
                fails.append(dict(index=i, op=list(op), what='snapshot ids %r, inhabited instants %r' % (r, inhabited)))
        elif op[0] == 'ips':
            if op[2] is not None:
                exp = Fraction(count.get(op[2], 0))
                if r != exp:
                    fails.append(dict(index=i, op=list(op), what='interactions_per_snapshots(%r) = %r, %r interactions are present' % (op[2], r, exp)))
            else:
                exp = sorted((t, Fraction(count[t])) for t in inhabited)
                if r != exp:
                    fails.append(dict(index=i, op=list(op), what='interactions_per_snapshots() = %r, expected %r' % (r, exp)))
        elif op[0] == 'avgnodes':
            if not inhabited:
                continue
            if all(t in nn for t in inhabited):
                exp = Fraction(sum(nn[t] for t in inhabited), len(inhabited))
                if r != exp:
                    fails.append(dict(index=i, op=list(op), what='avg_number_of_nodes %r, mean over ids %r' % (r, exp)))
    return fails


def o_stream(reg, prog, ri, T, removal=True):
    """C05: chronological, no repeats; '+' iff appears; '-' sound; runs of >= 2 instants closed; replay = presence"""
    fails = []
    ps = pairs_of(T, reg)
    for i, (op, r) in enumerate(zip(prog, ri)):
        if op[1:2] != (reg,):
            continue
        if op[0] == 'streamchk':
            if r != (True, True):
                fails.append(dict(index=i, op=list(op), what='stream not chronological or repeats an event: %r' % (r,)))
        elif op[0] == 'stream' and isinstance(r, list):
            evs = set(r)
            plus = {(t, p) for (t, p, o) in r if o == '+'}
            minus = {(t, p) for (t, p, o) in r if o == '-'}
            exp_plus = set()
            for p in ps:
                s = pres_set(T, reg, p)
                for (a, b) in runs_of(s):
                    exp_plus.add((a, p))
                    if b > a and (b + 1, p) not in minus:
                        fails.append(dict(index=i, op=list(op), what='run %r of %r has no closing - at %d' % ((a, b), p, b + 1),
                                          trigger=('unclosed_two_instant_run' if b == a + 1 else None)))
            if plus != exp_plus:
                fails.append(dict(index=i, op=list(op), what='+ events %r, appearances %r' % (sorted(plus), sorted(exp_plus))))
            for (t, p) in minus:
                s = pres_set(T, reg, p)
                if not (t - 1 in s and t not in s):
                    fails.append(dict(index=i, op=list(op), what='- event at %d for %r but presence there is %r' % (t, p, sorted(s))))
            # replay
            for p in ps | {p for (_, p, _) in r}:
                rec = set()
                pe = sorted((t, 0 if o == '-' else 1) for (t, pp, o) in r if pp == p)
                cur = None
                for (t, o) in pe:
                    if o == 1:
                        if cur is not None:
                            rec.add(cur)
                        cur = t
                    else:
                        if cur is not None:
                            rec.update(range(cur, t))
                            cur = None
                if cur is not None:
                    rec.add(cur)
                s = pres_set(T, reg, p)
                if rec != s:
                    two = any(b == a + 1 and (b + 1, p) not in minus for (a, b) in runs_of(s))
                    fails.append(dict(index=i, op=list(op), what='replaying the stream gives %r for %r, presence is %r' % (sorted(rec), p, sorted(s)),
                                      trigger=('unclosed_two_instant_run' if two else None)))
    return fails
