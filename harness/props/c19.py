"""C19 - untimed networkx mutators are blocked; frozen graphs are immutable."""
import networkx as nx
import gen
from props.base import PropBase, tup
from props.graphcommon import state_case, known_nodes, has_probes, Truth
from props.suboracles import o_stream, o_canon, o_snap

MUST_BLOCK = ['add_edge', 'add_edges_from', 'add_weighted_edges_from', 'update', 'remove_edge', 'remove_edges_from',
              'remove_node', 'remove_nodes_from', 'edges_iter', 'in_edges', 'out_edges', 'in_edges_iter', 'out_edges_iter']
# inherited callables that ARE operations of the model's alphabet: exercised through their own operations
MODEL_OPS = {'add_node', 'add_nodes_from', 'clear', 'clear_edges'}


def inherited_names(directed):
    """every public callable / view attribute of the class that networkx's base class also has (reflection, per run)"""
    import dynetx as dn
    cls, base = (dn.DynDiGraph, nx.DiGraph) if directed else (dn.DynGraph, nx.Graph)
    names = []
    for n in sorted(set(dir(cls)) & set(dir(base))):
        if n.startswith('_'):
            continue
        names.append(n)
    return names


def obs_ops(r, directed):
    # on the digraph both adjacency sides are observed (successors AND predecessors): an API call that empties one
    # side only leaves interactions behind
    return [('nodes', r, None), ('inter', r, 'out_interactions' if directed else 'interactions', None, None),
            ('ids', r), ('ips', r, None), ('stream', r), ('streamchk', r)] + \
           ([('inter', r, 'in_interactions', None, None)] if directed else [])


class C19(PropBase):
    id = 'C19'
    obs = {'nxcall', 'addnode', 'clear', 'add', 'bulk', 'nodes', 'inter', 'ids', 'ips', 'stream', 'has'}
    rule = ('state = random history (both classes, both modes); EVERY public attribute the class shares with networkx.Graph / DiGraph '
            '(enumerated by reflection on the installed networkx at run time) is called with synthesised arguments; the call must either '
            'leave nodes/timelines/snapshots/stream untouched (queries, views, factories), or raise NetworkXNotImplemented and leave them '
            'untouched (must include the 8 listed mutators and the blocked edge views; update is called with an edges argument), or be '
            'an operation of the model alphabet (add_node, add_nodes_from, clear, clear_edges) whose effect equals the model\'s; afterwards '
            'no adjacency entry lacks a timeline and the stream is in step with presence. Then freeze: every mutator must raise and '
            'change nothing. non-trivial = state with >= 2 pairs and a multi-run timeline')
    validated_only = ['the enumeration of the inherited API is a fact about the installed Python class hierarchy: enumerated exhaustively per run, not proved',
                      ]

    def scopes(self, tier):
        return ['per state: all inherited public names of the class (about 45 on networkx 3.6.1), exhaustive']

    def exhaustive_cases(self, tier):
        return []

    def n_random(self, tier):
        return 400 if tier == 'quick' else 6000

    def random_cases(self, rnd, n):
        for _ in range(n):
            c = state_case(rnd, max_calls=8)
            yield c

    def program(self, case):
        hist = tup(case['hist'])
        d, rem = case['directed'], case['removal']
        prog = [('new', 0, d, rem)] + hist
        ns = known_nodes(hist)
        ts = gen.probe_instants(hist)
        prog += obs_ops(0, d)
        for name in inherited_names(d):
            if name in MODEL_OPS:
                continue
            prog.append(('nxcall', 0, name, name in MUST_BLOCK))
        for name in ('dn.set_edge_attributes', 'dn.get_edge_attributes'):
            prog.append(('nxcall', 0, name, True))
        prog += obs_ops(0, d)
        # the model-alphabet operations
        prog += [('addnode', 0, 50, 2)] + obs_ops(0, d)
        prog += [('nodes', 0, None)] + has_probes(0, ns, ts) + [('stream', 0), ('streamchk', 0)]
        hi = 10      # the graph is cleared and refilled at small instants, whatever instants the history used
        prog += [('clear', 0, 'clear_edges')] + obs_ops(0, d) + [('add', 0, 1, 2, 3, 5)] + obs_ops(0, d)
        prog += [('has', 0, 1, 2, t) for t in range(1, hi)]        # a cleared graph must behave like a fresh one
        prog += [('clear', 0, 'clear')] + obs_ops(0, d) + [('add', 0, 1, 2, 2, None)]
        prog += [('has', 0, 1, 2, t) for t in range(0, hi)] + [('clear', 0, 'clear')] + obs_ops(0, d)
        # rebuild, freeze, try every mutator
        prog += [('new', 1, d, rem)] + [(o[0], 1) + tuple(o[2:]) for o in hist] + [('freeze', 1), ('meta', 1)] + obs_ops(1, d)
        for name in MUST_BLOCK[:8]:
            prog.append(('nxcall', 1, name, 2))
        prog += [('addnode', 1, 60, 0), ('clear', 1, 'clear'), ('clear', 1, 'clear_edges')] + obs_ops(1, d)
        prog += [('add', 1, 70, 71, 100, None)] + obs_ops(1, d)
        prog += [('bulk', 1, 'path', 101, None, [70, 72, 73])] + obs_ops(1, d)
        return prog

    def oracle(self, case, prog, ri):
        fails = []
        d = case['directed']
        nobs = len(obs_ops(0, d))
        names_seen = {}
        for i, (op, r) in enumerate(zip(prog, ri)):
            if op[0] == 'nxcall':
                names_seen[(op[1], op[2])] = r
                if isinstance(r, str) and r.startswith('CHANGED'):
                    fails.append(dict(index=i, op=list(op), what='inherited %s changed the graph (%s)' % (op[2], r)))
                if op[3] is True and r != 'NetworkXNotImplemented':
                    fails.append(dict(index=i, op=list(op), what='%s must raise NetworkXNotImplemented, got %r' % (op[2], r)))
                if op[3] == 2 and r != 'Frozen':
                    fails.append(dict(index=i, op=list(op), what='%s on a frozen graph: %r' % (op[2], r)))
        # observation blocks of register 0 around the battery of inherited calls must coincide
        starts0 = [i for i, op in enumerate(prog) if op[0] == 'nodes' and op[1] == 0 and prog[i + 1][0] == 'inter']
        blk = lambda s: ri[s:s + nobs]
        if len(starts0) >= 2 and blk(starts0[0]) != blk(starts0[1]):
            fails.append(dict(index=starts0[1], op=['after-inherited-calls'], what='the battery of inherited calls changed the graph'))
        # well-formedness after the model operations: stream in step with presence
        cut = starts0[3] if len(starts0) > 3 else len(prog)
        T = Truth(prog[:cut], ri[:cut])     # presence as probed BEFORE the clear operations
        if case['removal']:
            seg = [(op, r) for op, r in zip(prog, ri)]
            # the unclosed two-instant run is C05's finding, not an effect of the inherited API
            fails += [f for f in o_stream(0, prog[:starts0[3] if len(starts0) > 3 else len(prog)], ri, T) if f.get('trigger') != 'unclosed_two_instant_run']
            # ... and the snapshot ids / counts with it (whatever an earlier life of the object left behind)
            fails += o_snap(0, prog[:cut], ri, T)
        # clear_edges / clear leave nothing behind
        for i, (op, r) in enumerate(zip(prog, ri)):
            if op[0] == 'clear' and op[1] == 0 and r == 'Done':
                b = ri[i + 1:i + 1 + nobs]
                if b[1] != [] or b[2] != [] or b[3] != [] or b[4] != [] or (d and b[6] != []):
                    fails.append(dict(index=i, op=list(op), what='%s left interactions / snapshots / events behind: %r' % (op[2], b[1:5])))
                if op[2] == 'clear' and b[0] != []:
                    fails.append(dict(index=i, op=list(op), what='clear left nodes behind'))
        # after clear / clear_edges and one new interaction, presence is that of a fresh graph
        phase = 0
        for i, (op, r) in enumerate(zip(prog, ri)):
            if op[0] == 'clear' and op[1] == 0:
                phase += 1
            elif op[0] == 'has' and op[1] == 0 and phase in (1, 2) and (op[2], op[3]) == (1, 2) and op[4] is not None and i > starts0[2]:
                if phase == 1:
                    exp = (op[4] in (3, 4)) if case['removal'] else (op[4] == 3)
                else:
                    exp = (op[4] == 2)
                if r != exp:
                    fails.append(dict(index=i, op=list(op), what='after clear: has_interaction(1,2,%r) = %r, a fresh graph gives %r' % (op[4], r, exp)))
        # frozen graph
        starts1 = [i for i, op in enumerate(prog) if op[0] == 'nodes' and op[1] == 1 and prog[i + 1][0] == 'inter']
        meta = next((r for op, r in zip(prog, ri) if op[0] == 'meta' and op[1] == 1), None)
        if meta is not None and meta[3] != 1:
            fails.append(dict(index=0, op=['freeze'], what='is_frozen is false after freeze'))
        if len(starts1) >= 2 and blk(starts1[0]) != blk(starts1[1]):
            fails.append(dict(index=starts1[1], op=['frozen-mutators'], what='a mutator changed a frozen graph'))
        for i, (op, r) in enumerate(zip(prog, ri)):
            if op[1] == 1 and op[0] in ('addnode', 'clear') and i > (starts1[0] if starts1 else 0) and r == 'Done':
                fails.append(dict(index=i, op=list(op), what='%s succeeded on a frozen graph' % op[0]))
            if op[1] == 1 and op[0] in ('add', 'bulk') and op[-1] != [] and i > (starts1[0] if starts1 else 10 ** 9):
                if r == 'Done':
                    fails.append(dict(index=i, op=list(op), what='%s succeeded on a frozen graph' % op[0], trigger='add_interaction_on_frozen'))
        return fails

    def nontrivial(self, case, prog, ri):
        inter = next((r for op, r in zip(prog, ri) if op[0] == 'inter'), [])
        return isinstance(inter, list) and len(inter) >= 2 and any(len(tl) >= 2 for _, tl in inter)

    def classify(self, case, prog, ri):
        d = super().classify(case, prog, ri)
        for op, r in zip(prog, ri):
            if op[0] == 'nxcall' and op[1] == 0:
                k = 'inherited:' + ('blocked' if r == 'NetworkXNotImplemented' else 'unchanged' if r == 'Done' else 'CHANGED')
                d[k] = d.get(k, 0) + 1
        d['inherited_names_%s' % ('DynDiGraph' if case['directed'] else 'DynGraph')] = len(inherited_names(case['directed']))
        return d


PROP = C19()
