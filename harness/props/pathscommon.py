"""Shared by C12 / C13 / C15: generator of small temporal graphs + path queries, brute-force enumerator
written from the property text (C12's conditions), evaluated on has_interaction / snapshot-id answers."""
import itertools
import gen
from props.base import PropBase, tup
from props.graphcommon import has_probes, Truth


def graph_case(rnd, max_nodes=5, max_t=6, max_edges=12, selfloops=0.1, long_timeline=False):
    directed = rnd.random() < 0.5
    n = rnd.randint(2, max_nodes)
    T = rnd.randint(1, max_t)
    hist = []
    for _ in range(rnd.randint(1, max_edges)):
        u, v = rnd.randint(1, n), rnd.randint(1, n)
        if u == v and rnd.random() > selfloops:
            continue
        t = rnd.randint(0, T)
        e = None if rnd.random() < 0.75 else t + rnd.randint(1, 3)
        hist.append(('add', 0, u, v, t, e))
    if long_timeline and rnd.random() < gen.MANY_RUNS_P:
        # LONG timeline: one pair with 17..40 separate runs (two to three instants each).  Only where no paths are
        # enumerated (temporal_dag alone): the number of time-respecting paths grows exponentially with the runs
        k = rnd.randint(17, 40)
        hist = [o for o in hist if {o[2], o[3]} != {1, 2}][:4] + [('add', 0, 1, 2, 5 * i, 5 * i + rnd.choice([2, 3])) for i in range(k)]
    # snapshot ids of different widths / signs (the DAG encodes them in strings)
    sh = rnd.choice([0, 0, 0, 0, 7, 8, -3, -2, 96, 2 ** 31 - 2, 1700000000000, 2 ** 63 - 2, 10 ** 30])
    hist = [(o[0], o[1], o[2], o[3], o[4] + sh, None if o[5] is None else o[5] + sh) for o in hist]
    hist.sort(key=lambda o: o[4])
    if not hist:
        hist = [('add', 0, 1, 2, 0, None)]
    qs = []
    nodes = sorted({x for o in hist for x in (o[2], o[3])})
    ts = sorted({o[4] for o in hist} | {o[5] - 1 for o in hist if o[5]})
    for _ in range(rnd.randint(2, 5)):
        u = rnd.choice(nodes)
        v = rnd.choice([None, None, rnd.choice(nodes), u])
        a = rnd.choice([None, None] + list(range(min(ts) - 1, max(ts) + 2)))
        b = rnd.choice([None, None] + list(range(min(ts) - 1, max(ts) + 2)))
        qs.append((u, v, a, b))
    return dict(directed=directed, removal=True, hist=hist, family=rnd.choice(['int', 'int', 'digits', 'digits', 'str', 'us', 'sp']), functional=False, queries=qs,
                min_t=rnd.choice([None, ts[0], rnd.choice(ts)]))


def exhaustive_graphs(n_nodes=3, n_times=3, max_edges=3, step=1):
    """all temporal graphs on <= n_nodes nodes, n_times instants, <= max_edges point interactions (as sorted sets)"""
    slots = [(u, v, t) for t in range(n_times) for u in range(1, n_nodes + 1) for v in range(1, n_nodes + 1) if u != v]
    k = 0
    for m in range(1, max_edges + 1):
        for es in itertools.combinations(slots, m):
            k += 1
            if k % step:
                continue
            yield [('add', 0, u, v, t, None) for (u, v, t) in sorted(es, key=lambda x: x[2])]


def all_queries(nodes, n_times):
    qs = []
    for u in nodes:
        for v in [None] + nodes:
            for a in [None] + list(range(n_times)):
                for b in [None] + list(range(n_times)):
                    qs.append((u, v, a, b))
    return qs


def base_program(case):
    hist = tup(case['hist'])
    prog = [('new', 0, case['directed'], True)] + hist
    ns = gen.history_nodes(hist)
    ts = gen.probe_instants(hist, pad_lo=1, pad_hi=4)
    prog += [('nodes', 0, None), ('ids', 0)] + has_probes(0, ns, ts)
    return prog, ns, ts


class World:
    """presence of the implementation as told by has_interaction, snapshot ids, neighbours"""

    def __init__(self, prog, ri):
        self.T = Truth(prog, ri)
        self.directed = self.T.directed.get(0, False)
        self.nodes = self.T.nodes_flat.get(0, [])
        self.adj = {}
        for (r, u, v, t), val in self.T.has.items():
            if r == 0 and val is True and t is not None:
                self.adj.setdefault((u, t), set()).add(v)
        # the snapshot ids are the inhabited instants (C04): taken from the presence answers, not from what
        # temporal_snapshots_ids() says (the probes cover every instant of the history and a margin)
        self.ids = sorted({t for (x, t) in self.adj})

    def nbrs(self, x, t):
        return self.adj.get((x, t), set())

    def window(self, start, end):
        """the clipped ids, or 'ValueError' for an improper window, or [] without snapshots"""
        ids = self.ids
        if not ids:
            return []
        e = ids[-1] if end is None else end
        s = ids[0] if start is None else start
        if s < ids[0] or s > e or e > ids[-1] or s > ids[-1]:
            return 'ValueError'
        return [i for i in ids if s <= i <= e]

    def valid(self, p, u, v, win):
        """C12's conditions, hop by hop"""
        if len(p) == 0:
            return 'empty path'
        if p[0][0] != u:
            return 'first hop does not leave %r' % (u,)
        for i, (a, b, t) in enumerate(p):
            if t not in win:
                return 'hop time %r outside the window ids' % (t,)
            if b not in self.nbrs(a, t):
                return 'hop %r is not an interaction present at its time' % ((a, b, t),)
            if i > 0:
                pa, pb, pt = p[i - 1]
                if a != pb:
                    return 'hops do not chain at %d' % i
                if not pt < t:
                    return 'times do not strictly increase at %d' % i
                if a == pb and b == pa:
                    return 'hop %d reverses its predecessor' % i
                for j in win:
                    if pt < j < t and not self.nbrs(a, j):
                        return 'intermediate node %r has no interaction at snapshot %r between arrival and departure' % (a, j)
        if v is not None and p[-1][1] != v:
            return 'last hop does not reach %r' % (v,)
        return None

    def brute(self, u, v, win, cap=20000):
        """every hop sequence satisfying C12's conditions"""
        out = []
        widx = {t: i for i, t in enumerate(win)}

        def ext(path):
            if len(out) > cap:
                return
            a0, b0, t0 = path[-1]
            if v is None or b0 == v:
                out.append(tuple(path))
            # next hop leaves b0 at a later window instant, b0 alive in between
            for j in range(widx[t0] + 1, len(win)):
                t = win[j]
                nb = self.nbrs(b0, t)
                if not nb:
                    break  # b0 has no interaction at t: it cannot wait beyond t
                for c in sorted(nb):
                    if c == a0 and b0 == b0 and (b0, c) == (b0, a0) and True:
                        if c == a0:  # reversal of the previous hop (a0 -> b0 then b0 -> a0)
                            continue
                    path.append((b0, c, t))
                    ext(path)
                    path.pop()
        for t in win:
            for c in sorted(self.nbrs(u, t)):
                ext([(u, c, t)])
        return sorted(set(out))
