"""C16 - directed/undirected conversion preserves presence and isolates the copy."""
import gen
from props.base import PropBase, bigio_case, with_bigio, tup
from props.graphcommon import state_case, known_nodes, has_probes, query_probes, Truth
from props.suboracles import o_canon, o_snap, o_stream
from props.c02 import expected as q_expected
from props.c06 import obs_block


def latest_ends(hist, directed):
    """end of the latest run of every pair, by the documented merge rule (steers the mutation probes only)"""
    from props.base import SpanTracker, norm_key
    tr = SpanTracker(directed, True)
    for op in hist:
        if op[0] == 'add' and op[4] is not None and tr.expected_outcome(op[2], op[3], op[4], op[5]) == 'Done':
            tr.apply(op[2], op[3], op[4], op[5])
    return {k: max(s) for k, s in tr.pres.items() if s}


@with_bigio
class C16(PropBase):
    id = 'C16'
    obs = {'todir', 'toundir', 'nodes', 'meta', 'has', 'ids', 'stream', 'ips', 'inter', 'nnodes', 'streamchk', 'add', 'nbrs', 'deg',
           'size', 'nint', 'hasnode'}
    rule = ('state = random history of the source class (removal enabled; reciprocal pairs with different / overlapping / adjacent '
            'timelines, self-loops, isolated nodes, node and graph attributes with nested mutable values); to_undirected(), '
            'to_undirected(reciprocal=True) on DynDiGraph and to_directed() on DynGraph; the result is observed completely, then its '
            'attribute values are mutated in place and the source is re-observed. non-trivial = a reciprocal pair with different timelines '
            '(directed source) / a pair with >= 2 runs (undirected source)')
    validated_only = ['deepcopy isolation is not modelled (pure functions cannot alias): the harness mutates nested attribute values of the '
                      'result and re-observes the source']

    def scopes(self, tier):
        return ['E2 histories (pairs (1,2),(2,1),(1,3),(1,1); <= 2 calls; t in 0..%d), both source classes, all conversions' % (2 if tier == 'quick' else 3)]

    def exhaustive_cases(self, tier):
        # runs of 150 000 instants at epoch-size instants (implementation side only, interval arithmetic at the boundaries)
        yield bigio_case(('span-conv', False, 150000, 1700000000000), ('span-conv', True, 150000, 2 ** 31 - 9))
        for directed in (False, True):
            for i, h in enumerate(gen.exhaustive_E2(max_len=2, tmax=2 if tier == 'quick' else 3)):
                if tier != 'quick' or i % 3 == 0:
                    yield dict(directed=directed, removal=True, hist=h, family='int', functional=False, gattr=0)

    def n_random(self, tier):
        return 600 if tier == 'quick' else 30000

    def random_cases(self, rnd, n):
        for _ in range(n):
            c = state_case(rnd, removal=True, max_calls=9, family=rnd.choice(['int', 'int', 'str', 'tuple']))
            if c['directed']:
                # more reciprocal structure
                adds = [o for o in c['hist'] if o[0] == 'add' and o[4] is not None]
                for o in adds[:2]:
                    if rnd.random() < 0.6:
                        t = o[4] + rnd.randint(-1, 3)
                        c['hist'].append(('add', 0, o[3], o[2], t, rnd.choice([None, t + rnd.randint(1, 4)])))
            c['gattr'] = rnd.choice([0, 3])
            yield c

    def program(self, case):
        hist = tup(case['hist'])
        d = case['directed']
        prog = [('new', 0, d, True)]
        if case.get('gattr'):
            prog.append(('gattr', 0, case['gattr']))
        prog += hist
        ns = known_nodes(hist)
        ts = gen.probe_instants(hist)
        prog += obs_block(0, ns, ts, d)
        convs = [('toundir', 0, 1, False), ('toundir', 0, 2, True)] if d else [('todir', 0, 1)]
        for c in convs:
            r = c[2]
            prog += [c] + obs_block(r, ns, ts, not d)
            prog += query_probes(r, ns, ts[::3] + [None], not d, light=True)
            for n in ns[:2]:
                prog.append(('poke', r, n))
            # mutate the RESULT's interactions too: extend the latest run of every pair (both orientations); shared
            # interval objects between source and result would make the source change
            for (k, end_) in latest_ends(hist, d).items():
                prog.append(('add', r, k[0], k[1], end_, end_ + 3))
                prog.append(('add', r, k[1], k[0], end_ + 1, end_ + 5))
        # ... and the SOURCE's: the results must not follow (re-observed below only for the source; the results were
        # fully observed right after their construction)
        prog += obs_block(0, ns, ts, d)
        return prog

    def oracle(self, case, prog, ri):
        fails = []
        T = Truth(prog, ri)
        d = case['directed']
        # source before / after
        starts = [i for i, op in enumerate(prog) if op[0] == 'nodes' and op[1] == 0 and op[2] is None]
        n = starts[1] - starts[0] if len(starts) > 1 else 0
        blk = lambda s: [(prog[j], ri[j]) for j in range(s, len(prog)) if prog[j][1] == 0 and prog[j][0] in
                         ('nodes', 'meta', 'has', 'ids', 'stream', 'streamchk', 'ips', 'nnodes', 'inter')]
        if len(starts) >= 2:
            b0 = [(o, r) for (o, r) in blk(starts[0])]
            half = len(b0) // 2
            if b0[:half] != b0[half:]:
                diff = [(x[0], x[1], y[1]) for x, y in zip(b0[:half], b0[half:]) if x != y][:2]
                fails.append(dict(index=starts[-1], op=['source-after'], what='source changed by the conversion or by mutating the result: %r' % (diff,)))
        src_nodes = ri[starts[0]]
        src_meta = ri[starts[0] + 1]
        for i, (op, r) in enumerate(zip(prog, ri)):
            if op[0] not in ('todir', 'toundir'):
                continue
            dst = op[2]
            if r != 'Done':
                fails.append(dict(index=i, op=list(op), what='conversion raised %s' % r))
                continue
            j = i + 1
            if ri[j] != src_nodes:
                fails.append(dict(index=j, op=list(prog[j]), what='nodes/attributes %r, source has %r' % (ri[j], src_nodes)))
            meta = ri[j + 1]
            if meta[0] != int(not d) or meta[2] != src_meta[2]:
                fails.append(dict(index=j + 1, op=list(prog[j + 1]), what='class / graph attributes %r (source %r)' % (meta, src_meta)))
            hidx = {(o[1], o[2], o[3], o[4]): jj for jj, o in enumerate(prog) if o[0] == 'has'}
            for (rr, u, v, t), val in T.has.items():
                if rr != dst or t is None:
                    continue
                a, b = T.has.get((0, u, v, t)), T.has.get((0, v, u, t))
                if op[0] == 'toundir':
                    exp = (a and b) if op[3] else (a or b)
                    trig = None
                else:
                    exp = a  # {u,v} present in the undirected source
                    trig = 'to_directed_single_orientation' if (u != v) else None
                if val != bool(exp):
                    fails.append(dict(index=hidx[(rr, u, v, t)], op=list(op), what='result has_interaction(%r,%r,%r)=%r, expected %r' % (u, v, t, val, bool(exp)),
                                      trigger=trig, probe=[u, v, t]))
            fails += o_canon(dst, prog, ri, T) + o_snap(dst, prog, ri, T) + o_stream(dst, prog, ri, T)
        for i, (op, r) in enumerate(zip(prog, ri)):
            if op[0] in ('nbrs', 'deg', 'size', 'nint', 'hasnode') and op[1] != 0:
                exp, trig = q_expected(op, T)
                if exp is not None and r != exp and not trig:
                    fails.append(dict(index=i, op=list(op), what='query on converted graph: %r, static graph gives %r' % (r, exp)))
        # the to_directed finding is attributed only if implementation and model agree on the conversion's presence
        return fails

    def nontrivial(self, case, prog, ri):
        T = Truth(prog, ri)
        if case['directed']:
            for (rr, u, v, t), val in T.has.items():
                if rr == 0 and val is True and t is not None and u != v and T.has.get((0, v, u, t)) is False \
                        and any(vv is True and r2 == 0 and (a, b) == (v, u) for (r2, a, b, t2), vv in T.has.items() if t2 is not None):
                    return True
            return False
        return any(op[0] == 'inter' and op[1] == 0 and isinstance(r, list) and any(len(tl) >= 2 for _, tl in r) for op, r in zip(prog, ri))


PROP = C16()
