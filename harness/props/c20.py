"""C20 - delta-conformity is bounded, relabelling-invariant, consistent when sliding."""
import gen
from core import PTYPES
from props.base import PropBase, tup
from props.graphcommon import known_nodes, has_probes, Truth


def conf_case(rnd):
    # half of the cases are 'rich': 5-6 nodes, many point interactions packed into few instants, the whole history in
    # the window -- closed walks back to the source, nodes at several hop distances, ties
    rich = rnd.random() < 0.5
    n = rnd.randint(5, 6) if rich else rnd.randint(2, 6)
    T = rnd.randint(3, 5) if rich else rnd.randint(2, 7)
    hist = []
    for _ in range(rnd.randint(6, 12) if rich else rnd.randint(2, 11)):
        u, v = rnd.sample(range(1, n + 1), 2)
        t = rnd.randint(0, T)
        e = None if rnd.random() < (0.85 if rich else 0.6) else t + rnd.randint(1, 3)
        hist.append(('add', 0, u, v, t, e))
    hist.sort(key=lambda o: o[4])
    nl = rnd.randint(1, 2)
    tabs = [{x: rnd.randint(0, rnd.choice([1, 2])) for x in range(1, n + 1)} for _ in range(nl)]
    perm = list(range(1, n + 1))
    rnd.shuffle(perm)
    return dict(directed=False, removal=True, hist=hist, family=rnd.choice(['int', 'digits', 'str', 'us', 'sp']), functional=False, n=n,
                tabs=[{str(k): v for k, v in t.items()} for t in tabs], perm=perm,
                start=(0 if rich else rnd.randint(-1, T)), delta=(T if rich else rnd.randint(0, 4)), ptype=rnd.choice(PTYPES), psize=rnd.randint(1, nl),
                alphas=rnd.choice([[1], [2], [1, 3]]), sdelta=rnd.randint(0, 3))


class C20(PropBase):
    id = 'C20'
    obs = {'dconf'}
    rule = ('labelled DynGraph (<= 6 nodes, <= 8 instants, <= 11 interactions, 1-2 static categorical labels with 2-3 values, integer '
            'alphas in {1,2,3} so that the model\'s exact rationals and the floats agree within 1e-9), every path type, profile_size '
            '1..#labels; delta_conformity at a random start/delta and sliding_delta_conformity; oracle: scores in [-1,1], exactly for the '
            'nodes present at start in the window (None when the window is empty), invariant under renaming label values and under a '
            'permutation of node ids (second graph built with permuted ids), equal to 1 / 0 under a single shared label according to '
            'whether the node reaches another node, sliding = pointwise delta_conformity stamped t+delta. non-trivial = some node '
            'reaches nodes at >= 2 distinct distances and both label values occur')
    validated_only = ['IEEE rounding of the accumulated scores (compared within 1e-9)', 'non-integer alphas (oracle only: range)',
                      'invariance under node renaming is validated on the implementation, not proved']

    def scopes(self, tier):
        return []

    def n_random(self, tier):
        return 1200 if tier == 'quick' else 12000

    def random_cases(self, rnd, n):
        for _ in range(n):
            yield conf_case(rnd)

    def program(self, case):
        hist = tup(case['hist'])
        tabs = [{int(k): v for k, v in t.items()} for t in case['tabs']]
        perm = case['perm']
        pi = lambda x: perm[x - 1]
        prog = [('new', 0, False, True)] + hist
        ns = list(range(1, case['n'] + 1))
        for x in ns:
            prog.append(('addnode', 0, x, 0))
        a = (0, case['start'], case['delta'], case['ptype'], case['psize'], case['alphas'])
        prog.append(('dconf', 0, False, a[1], a[2], a[3], a[4], a[5], tabs))                      # 0: the query
        swapped = [{k: (v + 1) % 3 for k, v in t.items()} for t in tabs]
        prog.append(('dconf', 0, False, a[1], a[2], a[3], a[4], a[5], swapped))                   # 1: label values renamed
        same = [{k: 0 for k in t} for t in tabs]
        prog.append(('dconf', 0, False, a[1], a[2], a[3], a[4], a[5], same))                      # 2: one shared label
        prog.append(('dconf', 0, True, 0, case['sdelta'], a[3], a[4], a[5], tabs))                # 3: sliding
        prog.append(('ids', 0))
        ids_probe = list(range(-1, max([o[4] for o in hist] + [o[5] or 0 for o in hist]) + 2))
        for t in ids_probe:
            prog.append(('dconf', 0, False, t, case['sdelta'], a[3], a[4], a[5], tabs))           # pointwise, for the sliding check
        # permuted copy
        prog.append(('new', 1, False, True))
        prog += [('add', 1, pi(o[2]), pi(o[3]), o[4], o[5]) for o in hist]
        for x in ns:
            prog.append(('addnode', 1, pi(x), 0))
        ptabs = [{pi(k): v for k, v in t.items()} for t in tabs]
        prog.append(('dconf', 1, False, a[1], a[2], a[3], a[4], a[5], ptabs))
        # reachability inside the window, for the single-label statement: asked of the graph itself (presence), not
        # derived from the library's own path search
        prog += [('has', 0, u, w, t) for t in range(a[1], a[1] + max(a[2], 0) + 1) for u in ns for w in ns if u != w]
        prog += [('slice', 0, 2, a[1], a[1] + a[2]), ('alltrp', 2, None, None, None), ('nodes', 2, a[1])]
        return prog

    def oracle(self, case, prog, ri):
        fails = []
        dq = [i for i, op in enumerate(prog) if op[0] == 'dconf']
        q, sw, same, sl = (ri[dq[0]], ri[dq[1]], ri[dq[2]], ri[dq[3]])
        perm = case['perm']
        pi = lambda x: perm[x - 1]
        i0 = dq[0]
        slice_ok = ri[[i for i, op in enumerate(prog) if op[0] == 'slice'][0]] == 'Done'
        nodes_at_start = ri[-1] if isinstance(ri[-1], list) else []
        paths = ri[-2] if isinstance(ri[-2], list) else []

        def bad(i, what, **kw):
            fails.append(dict(index=i, op=['dconf'], what=what, **kw))

        for i in dq:
            r = ri[i]
            if isinstance(r, dict):
                for k, v in r.items():
                    if not (-1 - 1e-9 <= float(v) <= 1 + 1e-9):
                        bad(i, 'score %r of %r outside [-1,1]' % (float(v), k))
            elif r not in ('None', 'ValueError'):
                bad(i, 'delta_conformity gave %r' % (r,))
        if isinstance(q, dict):
            dom = sorted({k[3] for k in q})
            exp_dom = sorted(n for n, a in nodes_at_start) if slice_ok else None
            if exp_dom is not None and dom != exp_dom:
                bad(i0, 'scores for nodes %r, nodes present at start are %r' % (dom, exp_dom))
            if isinstance(sw, dict) and sw != q:
                bad(dq[1], 'scores change when the label values are renamed')
            pq = ri[[i for i in dq if prog[i][1] == 1][0]]
            if isinstance(pq, dict):
                exp = {(k[0], k[1], k[2], pi(k[3])): v for k, v in q.items()}
                if exp != pq:
                    bad(dq[-1], 'scores change under a renaming of the node ids')
            else:
                bad(dq[-1], 'permuted graph gave %r' % (pq,))
            if isinstance(same, dict):
                ids0 = next((r for op, r in zip(prog, ri) if op[0] == 'ids' and op[1] == 0), [])
                reach = {op[2] for op, r in zip(prog, ri) if op[0] == 'has' and op[1] == 0 and r is True and op[4] in ids0}
                for k, v in same.items():
                    exp = 1.0 if k[3] in reach else 0.0
                    if abs(float(v) - exp) > 1e-9:
                        bad(dq[2], 'single shared label: node %r scores %r, expected %r' % (k[3], float(v), exp))
        elif q == 'None':
            if slice_ok and nodes_at_start and False:
                bad(i0, 'None although the window holds snapshots')
        # sliding = pointwise
        ids = next((r for op, r in zip(prog, ri) if op[0] == 'ids'), [])
        if isinstance(sl, dict) and ids:
            exp = {}
            for i in dq[4:]:
                op = prog[i]
                if op[1] != 0:
                    continue
                t = op[3]
                if t in ids and t + case['sdelta'] < ids[-1] and isinstance(ri[i], dict):
                    for k, v in ri[i].items():
                        exp[(t + case['sdelta'], k[1], k[2], k[3])] = v
            if exp != sl:
                bad(dq[3], 'sliding_delta_conformity differs from the pointwise results: %r vs %r' % (sorted(sl)[:4], sorted(exp)[:4]))
        return fails

    def nontrivial(self, case, prog, ri):
        paths = ri[-2] if isinstance(ri[-2], list) else []
        d = {}
        for p in paths:
            d.setdefault(p[0][0], {}).setdefault(p[-1][1], set()).add(len(p))
        multi = any(len({min(v) for w, v in m.items() if w != u}) >= 2 for u, m in d.items())
        both = any(len(set(t.values())) >= 2 for t in case['tabs'])
        return multi and both

    def classify(self, case, prog, ri):
        d = {'path_type:' + case['ptype']: 1, 'profile_size:%d' % case['psize']: 1, 'alphas:%r' % (case['alphas'],): 1}
        dq = [i for i, op in enumerate(prog) if op[0] == 'dconf']
        d['result:' + ('scores' if isinstance(ri[dq[0]], dict) else str(ri[dq[0]]))] = 1
        return d

    def shrink_candidates(self, case):
        h = case['hist']
        for i in range(len(h)):
            c = dict(case)
            c['hist'] = h[:i] + h[i + 1:]
            yield c


PROP = C20()
