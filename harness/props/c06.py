"""C06 - time_slice keeps exactly the presence inside the window, in a new graph."""
import gen
from props.base import PropBase, bigio_case, with_bigio, tup
from props.graphcommon import state_case, known_nodes, has_probes, Truth, run_cutting_window
from props.suboracles import o_canon, o_snap, o_stream
from props.c02 import expected as q_expected
from props.graphcommon import query_probes


def obs_block(r, ns, ts, directed):
    return ([('nodes', r, None), ('meta', r)] + has_probes(r, ns, ts + [None]) +
            [('ids', r), ('stream', r), ('streamchk', r), ('ips', r, None)] +
            [x for t in ts for x in (('ips', r, t), ('nnodes', r, t))] +
            [('inter', r, 'out_interactions' if directed else 'interactions', None, None)])


@with_bigio
class C06(PropBase):
    id = 'C06'
    obs = {'slice', 'nodes', 'meta', 'has', 'ids', 'stream', 'ips', 'inter', 'nnodes', 'streamchk', 'add', 'nbrs', 'deg', 'size', 'nint', 'hasnode'}
    rule = ('state = random history (removal enabled, both classes, reciprocal pairs, self-loops, attributed and isolated nodes); every '
            'window (a,b) of a per-state set is sliced (method or dn.time_slice), the slice is observed completely (presence at every '
            'instant, nodes+attributes, class, ids, counts, stream, timelines, C02 queries), the source is re-observed afterwards, a slice of '
            'the slice is compared with the slice by the intersection, and t_to < t_from must raise ValueError. windows classified '
            'cut / touch / miss / cover. non-trivial = window that cuts at least one run')

    def scopes(self, tier):
        return ['E1 histories of <= 2 calls (one pair) x ALL windows (a,b) with -1 <= a <= b <= 7 and b omitted, both classes' +
                ('' if tier == 'thorough' else ' (every 5th history)')]

    def exhaustive_cases(self, tier):
        # runs of 150 000 instants at epoch-size instants (implementation side only, interval arithmetic at the boundaries)
        yield bigio_case(('span-slice', False, 150000, 1700000000000), ('span-slice', True, 150000, 2 ** 31 - 9))
        step = 1 if tier == 'thorough' else 5
        wins = [(a, b) for a in range(-1, 8) for b in range(a, 8)] + [(a, None) for a in range(-1, 8)]
        for directed in (False, True):
            for i, h in enumerate(gen.exhaustive_E1(max_len=2)):
                if i % step == 0:
                    yield dict(directed=directed, removal=True, hist=h, family='int', functional=(i % 2 == 0), win=wins, sub=[])

    def n_random(self, tier):
        return 500 if tier == 'quick' else 20000

    def random_cases(self, rnd, n):
        for _ in range(n):
            c = state_case(rnd, removal=True, max_calls=8)
            ts = gen.probe_instants(tup(c['hist']))
            wins = []
            for _ in range(4):
                a, b = sorted((rnd.choice(ts), rnd.choice(ts)))
                wins.append((a, rnd.choice([b, b, None])))
            w = run_cutting_window(rnd, tup(c['hist']))
            if 'many_runs' in c.get('classes', []):
                wins = wins[:2]          # long timelines are probed instant by instant: two windows keep the program affordable
            if w is not None and rnd.random() < 0.5:
                wins[rnd.randrange(len(wins))] = w
            wins.append((ts[-1], ts[0]))  # invalid unless equal
            c['win'] = wins
            a, b = sorted((rnd.choice(ts), rnd.choice(ts)))
            c['sub'] = [(a, b)]
            yield c

    def program(self, case):
        hist = tup(case['hist'])
        d = case['directed']
        prog = [('new', 0, d, True)] + hist
        ns = known_nodes(hist)
        ts = gen.probe_instants(hist)
        prog += obs_block(0, ns, ts, d)
        reg = 1
        self_layout = []
        for w in case['win']:
            a, b = w
            prog += [('slice', 0, reg, a, b)] + obs_block(reg, ns, ts, d)
            if len(case['win']) <= 6:
                prog += query_probes(reg, ns, [t for t in ts[::2]] + [None], d, light=True)
            bb = a if b is None else b
            for (c, e) in case.get('sub', []):
                if bb >= a and max(a, c) <= min(bb, e):
                    prog += [('slice', reg, reg + 1, c, e)] + obs_block(reg + 1, ns, ts, d)
                    prog += [('slice', 0, reg + 2, max(a, c), min(bb, e))] + obs_block(reg + 2, ns, ts, d)
            reg += 3
        prog += obs_block(0, ns, ts, d)  # the source, afterwards
        return prog

    def oracle(self, case, prog, ri):
        fails = []
        T = Truth(prog, ri)
        d = case['directed']
        # index observation blocks per register, in program order
        blocks = {}
        cur = None
        for i, (op, r) in enumerate(zip(prog, ri)):
            if op[0] == 'nodes' and op[2] is None:
                cur = (op[1], i)
                blocks.setdefault(op[1], []).append({'start': i, 'obs': []})
            if cur and op[0] in ('nodes', 'meta', 'has', 'ids', 'stream', 'streamchk', 'ips', 'nnodes', 'inter') and op[1] == cur[0] \
                    and not (op[0] == 'inter' and op[2] == 'interactions' and d and len(op) > 4 and op[4] is not None):
                blocks[op[1]][-1]['obs'].append((op, r))
        src_nodes = dict(ri[blocks[0][0]['start']]) if isinstance(ri[blocks[0][0]['start']], list) else {}
        # source unchanged
        if len(blocks[0]) >= 2 and blocks[0][0]['obs'][:len(blocks[0][-1]['obs'])] != blocks[0][-1]['obs']:
            fails.append(dict(index=blocks[0][-1]['start'], op=['source-after'], what='the source graph is observably changed by time_slice'))
        src_has = {(u, v, t): r for (rr, u, v, t), r in T.has.items() if rr == 0}
        slices = {}
        for i, (op, r) in enumerate(zip(prog, ri)):
            if op[0] != 'slice':
                continue
            _, s, dst, a, b = op
            bb = a if b is None else b
            if bb < a:
                if r != 'ValueError':
                    fails.append(dict(index=i, op=list(op), what='t_to < t_from gave %s, not ValueError' % r))
                continue
            if r != 'Done':
                fails.append(dict(index=i, op=list(op), what='valid window raised %s' % r))
                continue
            slices[dst] = (s, a, bb, i)
        for dst, (s, a, bb, i) in slices.items():
            op = prog[i]
            # presence
            for (rr, u, v, t), val in T.has.items():
                if rr != dst:
                    continue
                srcv = T.has.get((s, u, v, t))
                if t is None:
                    continue
                exp = (a <= t <= bb) and bool(srcv)
                if val != exp:
                    fails.append(dict(index=i, op=list(op), what='slice has_interaction(%r,%r,%r)=%r, expected %r' % (u, v, t, val, exp)))
                    break
            # nodes: exactly the endpoints of interactions present in the window, with the source's attributes
            ends = set()
            for (rr, u, v, t), val in T.has.items():
                if rr == dst and val is True and t is not None:
                    ends.update((u, v))
            blk = [b_ for b_ in blocks.get(dst, [])]
            if blk:
                nodes_r = ri[blk[0]['start']]
                exp_nodes = sorted((n, src_nodes.get(n, 0)) for n in ends)
                if nodes_r != exp_nodes and s == 0:
                    fails.append(dict(index=blk[0]['start'], op=list(prog[blk[0]['start']]), what='slice nodes %r, expected %r' % (nodes_r, exp_nodes)))
                meta = [r for (o, r) in blk[0]['obs'] if o[0] == 'meta']
                if meta and (meta[0][0] != int(d)):
                    fails.append(dict(index=i, op=list(op), what='slice class differs from the source class'))
            fails += o_canon(dst, prog, ri, T) + o_snap(dst, prog, ri, T) + o_stream(dst, prog, ri, T)
        # composition: registers come in triples (w, w+1 = slice of slice, w+2 = slice by the intersection)
        for dst in slices:
            if dst + 1 in slices and slices[dst + 1][0] == dst and dst + 2 in slices:
                o1 = [(o[0],) + tuple(o[2:]) + (r,) for (o, r) in blocks[dst + 1][0]['obs']]
                o2 = [(o[0],) + tuple(o[2:]) + (r,) for (o, r) in blocks[dst + 2][0]['obs']]
                if o1 != o2:
                    diff = [(x, y) for x, y in zip(o1, o2) if x != y][:2]
                    trig = 'unclosed_two_instant_run' if all(x[0] in ('stream',) for x, y in diff) else None
                    fails.append(dict(index=slices[dst + 1][3], op=list(prog[slices[dst + 1][3]]),
                                      what='slice of slice differs from slice by the intersection: %r' % (diff,), trigger=trig))
        # C02 on slices
        for i, (op, r) in enumerate(zip(prog, ri)):
            if op[0] in ('nbrs', 'deg', 'size', 'nint', 'hasnode', 'nnodes') and op[1] in slices and op[0] != 'nnodes':
                exp, trig = q_expected(op, T)
                if exp is not None and r != exp and not trig:
                    fails.append(dict(index=i, op=list(op), what='query on slice: %r, static graph gives %r' % (r, exp)))
        return fails

    def classify(self, case, prog, ri):
        d = super().classify(case, prog, ri)
        T = Truth(prog, ri)
        for op, r in zip(prog, ri):
            if op[0] == 'slice' and op[1] == 0 and r == 'Done':
                a, b = op[3], (op[3] if op[4] is None else op[4])
                inside = any(v is True and rr == 0 and t is not None and a <= t <= b for (rr, u, vv, t), v in T.has.items())
                cut = any(v is True and rr == 0 and t in (a, b) and (T.has.get((0, u, vv, a - 1)) or T.has.get((0, u, vv, b + 1)))
                          for (rr, u, vv, t), v in T.has.items() if t is not None)
                k = 'window:' + ('cuts_run' if cut else 'inside' if inside else 'misses_everything')
                d[k] = d.get(k, 0) + 1
        return d

    def nontrivial(self, case, prog, ri):
        return any(k == 'window:cuts_run' for k in self.classify(case, prog, ri))


PROP = C06()
