"""C05 - the interaction stream is a chronological, faithful event log of presence."""
import gen
from props.base import PropBase, tup
from props.graphcommon import state_case, known_nodes, has_probes, Truth
from props.suboracles import o_stream


class C05(PropBase):
    id = 'C05'
    obs = {'stream', 'streamchk', 'add'}
    rule = ('history as in C01 (removal enabled; spans that extend, touch or are contained in the latest run; several pairs sharing event '
            'instants; either endpoint order); list(stream_interactions()) and dn.stream_interactions checked for order, repeats, + iff '
            'appearance, - soundness, closure of runs of >= 2 instants and replay = presence. non-trivial = a pair with >= 2 runs or an '
            'extended run')

    def scopes(self, tier):
        return ['E1 (one pair, <= %d calls), E2 (4 pair shapes, <= 2 calls) and E3 (both orientations of one pair, all 32768 histories of 3 calls, t in 0..3, e <= t+3; DynGraph: every 4th on the quick tier), both classes' % (2 if tier == 'quick' else 3)]

    def exhaustive_cases(self, tier):
        for directed in (False, True):
            for h in gen.exhaustive_E1(max_len=2 if tier == 'quick' else 3):
                yield dict(directed=directed, removal=True, hist=h, family='int', functional=False)
            for i, h in enumerate(gen.exhaustive_E2(max_len=2, tmax=2 if tier == 'quick' else 3)):
                if tier != 'quick' or i % 2 == 0:
                    yield dict(directed=directed, removal=True, hist=h, family='int', functional=(i % 2 == 0))
        # E3: both orientations of one pair, all histories of exactly 3 calls (t in 0..3, e up to t+3): the events of
        # reciprocal arcs share instants, and the bookkeeping of one must not touch the other's
        for directed in (True, False):
            for i, h in enumerate(gen.exhaustive_E3()):
                if directed or tier != 'quick' or i % 4 == 0:
                    yield dict(directed=directed, removal=True, hist=h, family='int', functional=False)

    def n_random(self, tier):
        return 1500 if tier == 'quick' else 150000

    def random_cases(self, rnd, n):
        for _ in range(n):
            yield state_case(rnd, removal=True, max_calls=12, isolated=False)

    def program(self, case):
        hist = tup(case['hist'])
        prog = [('new', 0, case['directed'], True)] + hist
        ns = known_nodes(hist)
        ts = gen.probe_instants(hist, pad_lo=2, pad_hi=3)
        prog += [('nodes', 0, None)] + has_probes(0, ns, ts) + [('stream', 0), ('streamchk', 0)]
        return prog

    def oracle(self, case, prog, ri):
        return o_stream(0, prog, ri, Truth(prog, ri))

    def nontrivial(self, case, prog, ri):
        acc = {}
        for op, r in zip(prog, ri):
            if op[0] == 'add' and r == 'Done' and op[4] is not None:
                k = (min(op[2], op[3]), max(op[2], op[3])) if not case['directed'] else (op[2], op[3])
                acc[k] = acc.get(k, 0) + 1
        return any(v >= 2 for v in acc.values())


PROP = C05()
