"""C13 - no time-respecting path is missed."""
import gen
from props.base import PropBase, tup
from props.pathscommon import graph_case, exhaustive_graphs, all_queries, base_program, World
from props.c12 import C12


class C13(C12):
    def program(self, case):
        prog = super().program(case)
        for j, (u, v, a, b) in enumerate(case['queries'][:2]):
            prog.append(('trpsample', 0, u, v, a, b, 0.5, 17 + j))
        return prog

    id = 'C13'
    obs = {'trp', 'alltrp', 'trpsample'}
    rule = ('temporal graphs as in C15 (exhaustive small universe + random); for every (u, v, window) with u present at start the result '
            'of time_respecting_paths must EQUAL the brute-force enumeration of all hop sequences satisfying C12\'s conditions over the '
            'has_interaction answers; empty when u has no interaction at start; all_time_respecting_paths(min_t) = union over the nodes '
            'present at min_t. sample < 1 is checked for the subset relation only (numpy seeded). non-trivial = brute-force set with a '
            'path of >= 2 hops')
    validated_only = ['sample < 1 draws pairs with numpy.random: not modelled; subset relation only']

    def oracle(self, case, prog, ri):
        fails = []
        W = World(prog, ri)
        for i, (op, r) in enumerate(zip(prog, ri)):
            if op[0] == 'trp':
                _, _, u, v, a, b = op
                win = W.window(a, b)
                if a is None:
                    present = u in W.nodes
                else:
                    present = bool(W.nbrs(u, a)) or any(u in W.nbrs(x, a) for x in W.nodes)
                if not present:
                    if r != []:
                        fails.append(dict(index=i, op=list(op), what='u is not present at start but the result is %r' % (r,)))
                    continue
                if win == 'ValueError':
                    continue
                if isinstance(r, str):
                    fails.append(dict(index=i, op=list(op), what='time_respecting_paths gave %s' % r))
                    continue
                exp = W.brute(u, v, win)
                if r != exp:
                    missing = [p for p in exp if p not in r]
                    extra = [p for p in r if p not in exp]
                    trig = None
                    if missing and not extra and all(p[0][0] == p[0][1] for p in missing):
                        trig = 'root_selfloop_first_hop'
                    fails.append(dict(index=i, op=list(op), what='missing %r extra %r' % (missing[:3], extra[:3]), trigger=trig))
            elif op[0] == 'trpsample':
                if r != 'subset-ok':
                    fails.append(dict(index=i, op=list(op), what='sample < 1: %s' % (r,)))
            elif op[0] == 'alltrp':
                if isinstance(r, str):
                    continue
                mt = op[4]
                win = W.window(None, None)
                if win == 'ValueError':
                    continue
                us = W.nodes if mt is None else [x for x in W.nodes if W.nbrs(x, mt) or any(x in W.nbrs(y, mt) for y in W.nodes)]
                exp = sorted(set(p for u in us for p in W.brute(u, None, win)))
                if r != exp:
                    missing = [p for p in exp if p not in r]
                    extra = [p for p in r if p not in exp]
                    trig = 'root_selfloop_first_hop' if (missing and not extra and all(p[0][0] == p[0][1] for p in missing)) else None
                    fails.append(dict(index=i, op=list(op), what='all_time_respecting_paths: missing %r extra %r' % (missing[:3], extra[:3]), trigger=trig))
        return fails

    def nontrivial(self, case, prog, ri):
        return any(op[0] == 'trp' and isinstance(r, list) and any(len(p) >= 2 for p in r) for op, r in zip(prog, ri))


PROP = C13()
