"""C02 - every snapshot and flattened query projects the one presence relation."""
import networkx as nx
from fractions import Fraction
import gen
from props.base import PropBase, tup, norm_key
from props.graphcommon import state_case, known_nodes, has_probes, query_probes, Truth, UNKNOWN


def expected(op, T):
    """what the static graph {(u,v): has_interaction(u,v,t)} gives for this query; returns (value, triggers)
    where triggers names the pinned defects that may explain a deviation on this very query"""
    k = op[0]
    r = op[1]
    d = T.directed.get(r, False)
    trig = None
    if k == 'nbrs':
        _, _, kind, n, t = op
        S = T.static(r, t)
        if n not in S:
            if (not d) and kind == 'neighbors' and t is not None:
                return [], None
            if kind in ('all_neighbors', 'non_neighbors') and not d and t is not None:
                return ([] if kind == 'all_neighbors' else sorted(x for x in S if x != n)), None
            return 'NetworkXError', None
        if kind == 'neighbors':
            return sorted(S.successors(n) if d else S.neighbors(n)), None
        if kind == 'predecessors':
            return sorted(S.predecessors(n)), None
        if kind == 'all_neighbors':
            return sorted(list(S.predecessors(n)) + list(S.successors(n))) if d else sorted(S.neighbors(n)), None
        if kind == 'non_neighbors':
            nb = set(nx.all_neighbors(S, n)) | {n}
            return sorted(x for x in S if x not in nb), None
    if k == 'hasnode':
        _, _, n, t = op
        S = T.static(r, t)
        if t is None:
            return n in S, None
        return (n in S and S.degree(n) > 0), None
    if k == 'deg':
        _, _, kind, t, nb = op
        S = T.static(r, t)
        if isinstance(nb, (tuple, list)) and len(nb) == 2 and nb[0] == 'one':
            nb = [nb[1]]
        if isinstance(nb, (tuple, list)) and len(nb) == 2 and nb[0] == 'iter':
            nb = list(nb[1])
        ns = list(S) if nb is None else [n for n in nb if n in S]
        f = {'degree': S.degree, 'in_degree': getattr(S, 'in_degree', None), 'out_degree': getattr(S, 'out_degree', None)}[kind]
        loops = (not d) and any(S.has_edge(n, n) for n in ns)
        return sorted((n, f(n)) for n in ns), ('undirected_selfloop_counted_once' if loops else None)
    if k == 'inter':
        _, _, kind, t, nb = op
        S = T.static(r, t)
        if kind == 'interactions':
            es = list(S.edges(None if nb is None else [n for n in nb if n in S]))
            trig = 'digraph_interactions_seen_filter' if d else None
        elif kind == 'in_interactions':
            es = list(S.in_edges(None if nb is None else [n for n in nb if n in S]))
        else:
            es = list(S.out_edges(None if nb is None else [n for n in nb if n in S]))
        es = sorted(set((u, v) if d or u <= v else (v, u) for u, v in es))
        return es, trig
    if k == 'nodes':
        _, _, t = op
        S = T.static(r, t)
        if t is None:
            return None, None  # compared against the history by the oracle itself
        return sorted(n for n in S if S.degree(n) > 0), None
    if k == 'nnodes':
        _, _, t = op
        S = T.static(r, t)
        return (S.number_of_nodes() if t is None else sum(1 for n in S if S.degree(n) > 0)), None
    if k in ('size', 'nint'):
        t = op[-1]
        S = T.static(r, t)
        if k == 'nint' and op[2] is not None:
            u, v = op[2]
            return (1 if S.has_edge(u, v) else 0), None
        loops = (not d) and nx.number_of_selfloops(S) > 0
        return S.number_of_edges(), ('undirected_selfloop_counted_once' if loops else None)
    if k == 'density':
        _, _, t = op
        S = T.static(r, t)
        if t is not None:
            live = [n for n in S if S.degree(n) > 0]
            S = S.subgraph(live)
        n, m = S.number_of_nodes(), S.number_of_edges()
        if m == 0 or n <= 1:
            return Fraction(0), None
        val = Fraction(m, n * (n - 1)) * (1 if d else 2)
        if t is not None:
            return val, 'density_with_t_is_zero'
        loops = (not d) and nx.number_of_selfloops(S) > 0
        return val, ('undirected_selfloop_counted_once' if loops else None)
    if k == 'deghist':
        _, _, t = op
        S = T.static(r, t)
        loops = (not d) and nx.number_of_selfloops(S) > 0
        return list(nx.degree_histogram(S)), ('undirected_selfloop_counted_once' if loops else None)
    if k == 'isempty':
        return T.static(r, None).number_of_edges() == 0, None
    if k == 'nonint':
        _, _, t = op
        S = T.static(r, t)
        ns = list(S)
        out = []
        for i, u in enumerate(ns):
            for v in ns[i + 1:]:
                if not S.has_edge(u, v):
                    out.append((u, v) if u <= v else (v, u))
        return sorted(out), None
    if k == 'nodesnaps':
        ids = T.ids.get(r, [])
        n = op[2]
        return [t for t in ids if any(val is True and rr == r and tt == t and (a == n or b == n)
                                      for (rr, a, b, tt), val in T.has.items())], None
    return None, None


class C02(PropBase):
    id = 'C02'
    obs = {'nbrs', 'hasnode', 'deg', 'inter', 'nodes', 'nnodes', 'size', 'nint', 'density', 'deghist', 'isempty',
           'nonint', 'nodesnaps', 'has', 'ids', 'stream'}
    rule = ('state = random history (both classes, both removal modes, self-loops, reciprocal directed pairs, isolated and attributed '
            'nodes forced by the generator); every query entry point (method, _iter and dn.* forms) is called at every instant of '
            'min-1..max+2 and with t omitted, for nbunch in {None, [a,b,unknown], [single]}; the oracle rebuilds the static graph from '
            'has_interaction answers and asks networkx. non-trivial = state with >= 2 pairs and an instant at which a proper non-empty '
            'subset of them is present')
    validated_only = ['the _iter forms and dn.* wrappers are one-line delegations: the same model function stands for them, the '
                      'correspondence calls both forms on the implementation',
                      'non_interactions on DynDiGraph depends on set iteration order; only soundness is checked there']

    def scopes(self, tier):
        return ['states reached by E2 histories (pairs (1,2),(2,1),(1,3),(1,1); <= 2 calls; t in 0..2), both classes, both modes'
                + ('' if tier == 'thorough' else ' (every 4th)')]

    def exhaustive_cases(self, tier):
        step = 1 if tier == 'thorough' else 4
        for directed in (False, True):
            for removal in (True, False):
                for i, h in enumerate(gen.exhaustive_E2(max_len=2, tmax=2)):
                    if i % step == 0:
                        yield dict(directed=directed, removal=removal, hist=h, family='int', functional=(i % 3))

    def n_random(self, tier):
        return 700 if tier == 'quick' else 40000

    def random_cases(self, rnd, n):
        for _ in range(n):
            yield state_case(rnd, max_calls=8)

    def program(self, case):
        hist = tup(case['hist'])
        prog = [('new', 0, case['directed'], case['removal'])] + hist
        ns = known_nodes(hist)
        ts = gen.probe_instants(hist) + [None]
        prog.append(('nodes', 0, None))
        prog += has_probes(0, ns + [UNKNOWN], ts)
        prog += query_probes(0, ns, ts, case['directed'])
        # queries are pure: the first observations again, after every query entry point has been called
        prog += [('nodes', 0, None), ('ids', 0), ('stream', 0)] + has_probes(0, ns[:2], ts)
        return prog

    def oracle(self, case, prog, ri):
        fails = []
        T = Truth(prog, ri)
        hist = tup(case['hist'])
        # flattened node view: every endpoint of an accepted call and every added node, with its attributes
        exp_nodes = {}
        for op, r in zip(prog, ri):
            if op[0] == 'addnode':
                if op[3] != 0 or op[2] not in exp_nodes:
                    exp_nodes[op[2]] = op[3] if op[3] != 0 else exp_nodes.get(op[2], 0)
            elif op[0] == 'add' and r == 'Done':
                for n in (op[2], op[3]):
                    exp_nodes.setdefault(n, 0)
        first = {}
        for i, (op, r) in enumerate(zip(prog, ri)):
            if op[0] in ('nodes', 'ids', 'stream', 'has'):
                key = repr(op)
                if key in first and first[key] != r:
                    fails.append(dict(index=i, op=list(op), what='the same query answered %r before the battery of queries and %r after it' % (first[key], r)))
                first.setdefault(key, r)
        for i, (op, r) in enumerate(zip(prog, ri)):
            if op[0] in ('new', 'add', 'addnode', 'bulk', 'has', 'ids', 'stream'):
                continue
            if op[0] == 'nodes' and op[2] is None:
                if r != sorted(exp_nodes.items()):
                    fails.append(dict(index=i, op=list(op), what='flattened nodes %r, history gives %r' % (r, sorted(exp_nodes.items()))))
                continue
            exp, trig = expected(op, T)
            if exp is None:
                continue
            got = r
            if op[0] == 'nodes':
                got = [n for n, a in r] if isinstance(r, list) else r
                bad_attr = isinstance(r, list) and any(exp_nodes.get(n) != a for n, a in r)
                if bad_attr:
                    fails.append(dict(index=i, op=list(op), what='node attributes in nodes(t, data=True) differ from the flattened ones'))
            if op[0] == 'inter' and op[3] is None and isinstance(r, list):
                got = [p for p, tl in r]  # the timelines themselves are C03's business
            if got != exp:
                fails.append(dict(index=i, op=list(op), what='%r, static graph gives %r' % (got, exp), trigger=trig))
        return fails

    def nontrivial(self, case, prog, ri):
        T = Truth(prog, ri)
        ts = set(t for (_, _, _, t) in T.has if t is not None)
        tot = T.static(0, None).number_of_edges()
        if tot < 2:
            return False
        return any(0 < T.static(0, t).number_of_edges() < tot for t in ts)


PROP = C02()
