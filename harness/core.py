"""Shared harness: programs over graph registers, run on the real dynetx (from /repo's working tree) and on
the extracted Coq model (bin/dynmodel), canonicalised so that the two answers are comparable value by value.

A program is a list of operations (tuples, see OPS below). Node ids are small ints in programs; the
implementation side maps them through an id family (ints, strings, tuples) and maps answers back.
"""
import copy
import os, sys, subprocess, json, random, itertools, time
from fractions import Fraction

VERIF = os.path.dirname(os.path.dirname(os.path.abspath(__file__)))
REPO = os.environ.get('DYNETX_REPO', '/repo')
if REPO not in sys.path:
    sys.path.insert(0, REPO)
MODEL_BIN = os.path.join(VERIF, 'bin', 'dynmodel')

_dn = None


def dn():
    """import dynetx lazily (from REPO's working tree)"""
    global _dn
    if _dn is None:
        try:  # progress bars off (harness side only; the library is not modified)
            import tqdm as _tq

            class _Quiet(_tq.tqdm):
                def __init__(self, *a, **k):
                    k['disable'] = True
                    super().__init__(*a, **k)
            _tq.tqdm = _Quiet
        except Exception:
            pass
        import dynetx
        assert os.path.abspath(dynetx.__file__).startswith(os.path.abspath(REPO)), dynetx.__file__
        _dn = dynetx
        _install_handout_probe(dynetx)
    return _dn


# Hand-out probe (harness side only; the library is not modified): the containers that the query methods below RETURN are
# the caller's own -- "returns the list of ...", a caller may sort, pop or clear it.  Every list / dict / set such a method
# hands out is remembered and, once the operation that asked for it has been answered (and its answer copied), EMPTIED.  If
# the library kept a reference to a container it handed out (a cache returned without a copy), its later answers are wrong
# and the oracles see it; if it did not, nothing changes.  Only the top-level container is emptied, never what it holds.
HANDED_OUT = []
HANDOUT_METHODS = ('temporal_snapshots_ids', 'interactions', 'in_interactions', 'out_interactions', 'neighbors', 'successors',
                   'predecessors', 'nodes', 'degree', 'in_degree', 'out_degree', 'interactions_per_snapshots',
                   'get_node_snapshots', 'node_presence', 'inter_event_time_distribution', 'inter_in_event_time_distribution',
                   'inter_out_event_time_distribution')


def _install_handout_probe(D):
    import functools
    for cls in (D.DynGraph, D.DynDiGraph):
        for name in HANDOUT_METHODS:
            f = cls.__dict__.get(name)
            if f is None or not callable(f) or getattr(f, '_verif_probe', False):
                continue

            def mk(f):
                @functools.wraps(f)
                def w(*a, **k):
                    r = f(*a, **k)
                    if type(r) in (list, dict, set):
                        HANDED_OUT.append(r)
                    return r
                w._verif_probe = True
                return w
            setattr(cls, name, mk(f))


def scribble_handed_out():
    while HANDED_OUT:
        r = HANDED_OUT.pop()
        try:
            r.clear()
        except Exception:
            pass


# ----------------------------------------------------------------------------------------------------------
# id families
# ----------------------------------------------------------------------------------------------------------
SYM = ['0', '+', '-', 't', '', 'None', '#', ' ']


class Opaque:
    """a hashable node object with equality by value and NO ordering (u < v raises TypeError)"""
    __slots__ = ('i',)

    def __init__(self, i):
        self.i = i

    def __hash__(self):
        return hash(('Opaque', self.i))

    def __eq__(self, o):
        return isinstance(o, Opaque) and o.i == self.i

    def __repr__(self):
        return 'Opaque(%d)' % self.i


class Ids:
    def __init__(self, family='int'):
        self.family = family

    def to(self, i):
        f = self.family
        if f == 'int':
            return i
        if f == 'str':
            return 'n%03d' % i if i >= 0 else 'm%03d' % (-i)
        if f == 'sym':        # strings that also occur as markers inside the library ('+', '-', 't', '', 'None')
            return SYM[i] if 0 <= i < len(SYM) else ('s%d' % i if i >= 0 else 'S%d' % (-i))
        if f == 'sp':         # text with blanks (place names, labels): '_'-free, so inside C12's quantifier too
            return 'New y %03d' % i if i >= 0 else 'Old y %03d' % (-i)
        if f == 'us':         # text with the character the path algorithms use as a separator in DAG node names
            return 'a_n_%03d' % i if i >= 0 else 'a_m_%03d' % (-i)
        if f == 'ustr':       # non-ASCII text (encodable in latin-1 / cp1252 as well as utf-8)
            return '\u00e9%03d' % i if i >= 0 else '\u00fc%03d' % (-i)
        if f == 'tuple':
            return (i, 'x')
        if f == 'mixed':
            return i if i % 2 == 0 else 'n%03d' % i
        if f == 'lb':         # text with characters that str.splitlines() treats as line boundaries (but a binary file does not): FF, GS, NEL, CR
            return (['m\x85n%03d', 'x\x1dy%03d', 'p\x0cq%03d'][i % 3] % i) if i >= 0 else 'r\ry%03d' % (-i)
        if f == 'digits':     # digit strings: str(node) coincides with the str() of the int family's ids
            return str(i)
        if f == 'fset':       # partially ordered ids: u < v and v < u are both False, nothing raises
            return frozenset({('id', i)})
        if f == 'obj':        # unordered ids: u < v raises TypeError
            return Opaque(i)
        if f == 'float':
            return i + 0.5
        raise ValueError(f)

    def back(self, x):
        f = self.family
        if f == 'int':
            if type(x) is not int:
                raise ValueError('node id %r is not one of the ids that were used (an int)' % (x,))
            return x
        if f == 'lb':
            if type(x) is not str or len(x) != 6 or x[:3] not in ('m\x85n', 'x\x1dy', 'p\x0cq', 'r\ry'):
                raise ValueError('node id %r is not one of the ids that were written' % (x,))
            return int(x[3:]) if x[0] != 'r' else -int(x[3:])
        if f == 'digits':
            if type(x) is not str:
                raise ValueError('node id %r is not one of the ids that were used (a digit string)' % (x,))
            return int(x)
        if f == 'str':
            return int(x[1:]) if x[0] == 'n' else -int(x[1:])
        if f == 'sym':
            if x in SYM:
                return SYM.index(x)
            return int(x[1:]) if x[0] == 's' else -int(x[1:])
        if f == 'sp':
            if x[:6] not in ('New y ', 'Old y '):
                raise ValueError('node id %r is not one of the ids that were used' % (x,))
            return int(x[6:]) if x[0] == 'N' else -int(x[6:])
        if f == 'us':
            if x[:4] not in ('a_n_', 'a_m_'):
                raise ValueError('node id %r is not one of the ids that were used' % (x,))
            return int(x[4:]) if x[2] == 'n' else -int(x[4:])
        if f == 'ustr':
            if x[0] not in '\u00e9\u00fc':
                raise ValueError('node id %r is not one of the ids that were written' % (x,))
            return int(x[1:]) if x[0] == '\u00e9' else -int(x[1:])
        if f == 'tuple':
            return x[0]
        if f == 'mixed':
            return x if isinstance(x, int) else int(x[1:])
        if f == 'fset':
            (e,) = tuple(x)
            return e[1]
        if f == 'obj':
            return x.i
        if f == 'float':
            return int(x - 0.5)
        raise ValueError(f)


def attr_to(a):
    # a nested mutable value rides along so that deep-copy isolation can be observed
    return {} if a == 0 else {'a': a, 'nest': [a]}


def gattr_to(a):
    """graph-level attributes"""
    if a == 0:
        return {}
    d = {'a': a, 'nest': [a]}
    # attribute NAMES that coincide with names the library or networkx use for something else (constructor parameters,
    # keys of the node-link format): legitimate JSON-native graph / node attributes all the same
    if a % 10 == 5:
        d['edge_removal'] = False
    elif a % 10 == 6:
        d['data'] = [[1, 2]]
    elif a % 10 == 7:
        d.update({'directed': 0, 'multigraph': True, 'nodes': [], 'links': [], 'graph': {}, 'name': ''})
    elif a % 10 == 8:
        d.update({'t': [[0, 1]], 'id': 3, 'source': 1, 'target': 2, 'time': 5, 'incoming_graph_data': None})
    return d


def attr_back(d):
    if not isinstance(d, dict):
        return -12345
    if 'nest' in d and d['nest'] != [d.get('a')] and d.get('a') != 777:
        return -777  # a nested value was mutated through another graph: shared structure
    return d.get('a', 0)


# ----------------------------------------------------------------------------------------------------------
# encoding of operations for the model
# ----------------------------------------------------------------------------------------------------------
def _o(x):
    return (0, 0) if x is None else (1, x)


def _nb(nb):
    if isinstance(nb, tuple) and len(nb) == 2 and nb[0] == 'one':
        return [1, nb[1]]          # a single node passed as a scalar: the model sees the one-element bunch
    if isinstance(nb, tuple) and len(nb) == 2 and nb[0] == 'iter':
        return [1] + list(nb[1])   # a one-shot iterator over the nodes: the model sees the bunch
    return [0] if nb is None else [1] + list(nb)


def encode_op(op):
    k = op[0]
    if k == 'new':
        _, r, d, rem = op
        return [0, r, int(d), int(rem)]
    if k == 'add':
        _, r, u, v, t, e = op
        return [1, r, u, v, *_o(t), *_o(e)]
    if k == 'addnode':
        _, r, n, a = op
        return [2, r, n, a]
    if k == 'bulk':
        _, r, kind, t, e, l = op
        kk = {'from': 0, 'path': 1, 'star': 2, 'cycle': 3, 'fpath': 5, 'fstar': 6, 'fcycle': 7}[kind]
        flat = [x for p in l for x in p] if kind == 'from' else list(l)
        return [3, r, kk, *_o(t), *_o(e), *flat]
    if k == 'clear':
        _, r, kind = op
        return [4, r, 0 if kind == 'clear' else 1]
    if k == 'freeze':
        return [41, op[1]]
    if k == 'nxcall':
        return [42, op[1], int(op[3])]
    if k == 'poke':
        return [5, op[1], op[2]]
    if k == 'gattr':
        return [6, op[1], op[2]]
    if k == 'streamchk':
        return [29, op[1]]
    if k == 'has':
        _, r, u, v, t = op
        return [10, r, u, v, *_o(t)]
    if k == 'nbrs':
        _, r, kind, n, t = op
        kk = {'neighbors': 0, 'successors': 0, 'predecessors': 1, 'all_neighbors': 2, 'non_neighbors': 3}[kind]
        return [11, r, kk, n, *_o(t)]
    if k == 'deg':
        _, r, kind, t, nb = op
        return [12, r, {'degree': 0, 'in_degree': 1, 'out_degree': 2}[kind], *_o(t), *_nb(nb)]
    if k == 'inter':
        _, r, kind, t, nb = op
        return [13, r, {'interactions': 0, 'in_interactions': 1, 'out_interactions': 2}[kind], *_o(t), *_nb(nb)]
    if k == 'nodes':
        _, r, t = op
        return [14, r, *_o(t)]
    if k == 'hasnode':
        _, r, n, t = op
        return [15, r, n, *_o(t)]
    if k == 'nnodes':
        _, r, t = op
        return [16, r, *_o(t)]
    if k == 'nint':
        _, r, uv, t = op
        return [17, r, *((0, 0, 0) if uv is None else (1, uv[0], uv[1])), *_o(t)]
    if k == 'size':
        _, r, t = op
        return [18, r, *_o(t)]
    if k == 'ids':
        return [19, op[1]]
    if k == 'ips':
        _, r, t = op
        return [20, r, *_o(t)]
    if k == 'stream':
        return [21, op[1]]
    if k == 'nodesnaps':
        return [22, op[1], op[2]]
    if k == 'density':
        _, r, t = op
        return [23, r, *_o(t)]
    if k == 'deghist':
        _, r, t = op
        return [24, r, *_o(t)]
    if k == 'isempty':
        return [25, op[1]]
    if k == 'nonint':
        _, r, t = op
        return [26, r, *_o(t)]
    if k == 'avgnodes':
        return [27, op[1]]
    if k == 'meta':
        return [28, op[1]]
    if k == 'slice':
        _, s, d, a, b = op
        return [30, s, d, a, *_o(b)]
    if k in ('tdag', 'trp'):
        _, r, u, v, st, en = op
        return [60 if k == 'tdag' else 61, r, u, *_o(v), *_o(st), *_o(en)]
    if k == 'alltrp':
        _, r, st, en, mt = op
        return [62, r, *_o(st), *_o(en), *_o(mt)]
    if k == 'trpsample':
        return [65, op[1]]
    if k == 'annotate':
        flat = []
        for p in op[2]:
            flat.append(len(p))
            for h in p:
                flat += list(h)
        return [63] + flat
    if k == 'compact':
        return [64] + list(op[2])
    if k == 'bigio':
        return [67]
    if k == 'occname':
        _, u, v, t = op
        return [66, t, len(u)] + [ord(c) for c in u] + [ord(c) for c in v]
    if k == 'wsnap':
        return [70, op[1]]
    if k == 'rsnap':
        _, dst, d, rows, fmt = op
        flat = []
        for (u, v, t, e) in rows:
            flat += [u, v, t, *_o(e)]
        return [71, dst, int(d)] + flat
    if k == 'wint':
        return [72, op[1]]
    if k == 'rint':
        _, dst, d, rows, fmt = op
        flat = []
        for (u, v, o, t) in rows:
            flat += [u, v, 1 if o == '+' else 0, t]
        return [73, dst, int(d)] + flat
    if k == 'nld':
        return [74, op[1]]
    if k == 'nlg':
        _, dst, dd = op
        hasdir = dd['directed'] is not None
        flat = [x for na in dd['nodes'] for x in na] + [x for l in dd['links'] for x in l]
        return [75, dst, int(hasdir), int(bool(dd['directed'])), int(dd['dirarg']), dd['graph'], len(dd['nodes'])] + flat
    if k == 'rtext':
        _, dst, kind, d, m, delim, keys, lines = op
        flat = []
        for ln in lines:
            flat += [len(ln)] + [ord(c) for c in ln]
        return [76, dst, 0 if kind == 'snap' else 1, int(d), ord(m), *(_o(None if delim is None else ord(delim))), int(keys)] + flat
    if k == 'dconf':
        _, r, sliding, start, delta, ptype, psize, alphas, tabs = op
        flat = []
        for t in tabs:
            items = sorted(t.items())
            flat += [len(items)] + [x for kv in items for x in kv]
        return [95, r, int(sliding), start, delta, PTYPES.index(ptype), psize, len(alphas)] + list(alphas) + flat
    if k == 'stat':
        _, r, which, u, v = op
        return [90, r, STATS.index(which), u or 0, v or 0]
    if k == 'iet':
        _, r, sel, u = op
        return [91, r, IETS.index('global' if sel in ('outglobal', 'inglobal') else sel), u or 0]
    if k in ('rtsnap', 'rtint'):
        return [80 if k == 'rtsnap' else 81, op[1], op[2]]
    if k == 'rtnl':
        return [82, op[1], op[2], int(op[3])]
    if k == 'wsnaptext':
        return [78, op[1], ord(op[2])]
    if k == 'winttext':
        return [79, op[1], ord(op[2])]
    if k == 'todir':
        return [31, op[1], op[2]]
    if k == 'toundir':
        return [32, op[1], op[2], int(op[3])]
    raise ValueError(op)


STATS = ['coverage', 'node_contribution', 'edge_contribution', 'node_pair_uniformity', 'uniformity', 'density',
         'pair_density', 'node_density', 'snapshot_density', 'node_presence']
IETS = ['global', 'node', 'out', 'in']
PTYPES = ['shortest', 'fastest', 'foremost', 'fastest_shortest', 'shortest_fastest']


class Approx(float):
    """a float compared up to 1e-9 (exact rationals of the model vs float arithmetic of the implementation)"""
    def __eq__(self, other):
        return abs(float(self) - float(other)) <= 1e-9
    def __ne__(self, other):
        return not self.__eq__(other)
    __hash__ = None
OUTCOMES = {0: 'Done', 1: 'ValueError', 2: 'NetworkXError', 3: 'NetworkXNotImplemented', 4: 'KeyError', 5: 'Frozen', 6: 'TypeError'}


def _pairs(l):
    return [(l[i], l[i + 1]) for i in range(0, len(l) - 1, 2)]


def _npair(directed, u, v):
    return (u, v) if directed or u <= v else (v, u)


def decode_res(op, ints, directed_of):
    """model answer (list of ints) -> canonical python value. directed_of(r) gives the class of register r."""
    k = op[0]
    if k in ('new', 'poke', 'gattr', 'freeze'):
        return None
    if k in ('addnode', 'clear'):
        return OUTCOMES[ints[0]]
    if k == 'nxcall':
        return OUTCOMES[ints[0]]
    if k == 'streamchk':
        return (bool(ints[0]), bool(ints[1]))
    if k in ('add', 'bulk', 'slice', 'todir', 'toundir', 'rsnap', 'rint', 'nlg', 'rtext', 'rtsnap', 'rtint', 'rtnl'):
        return OUTCOMES[ints[0]]
    if k == 'dconf':
        if ints[:1] == [-2]:
            return 'None'
        if ints[:1] == [-1]:
            return 'ValueError'
        out = {}
        for i in range(0, len(ints), 6):
            st, al, pi, n, num, den = ints[i:i + 6]
            out[(st, al, pi, n)] = Approx(Fraction(num, den))
        return out
    if k == 'stat':
        if op[2] == 'node_presence':
            return sorted(ints)
        if ints[0] == -1 and len(ints) == 1:
            return 'KeyError'
        return 'ZeroDivisionError' if ints[1] == 0 else Fraction(ints[0], ints[1])
    if k == 'iet':
        return sorted(_pairs(ints))
    if k == 'wsnap':
        return sorted(tuple(ints[i:i + 3]) for i in range(0, len(ints), 3))
    if k == 'wint':
        d = directed_of(op[1])
        return sorted((ints[i + 3], _npair(d, ints[i], ints[i + 1]), '+' if ints[i + 2] else '-') for i in range(0, len(ints), 4))
    if k == 'nld':
        nn = ints[2]
        nodes = _pairs(ints[3:3 + 2 * nn])
        rest = ints[3 + 2 * nn:]
        d = bool(ints[0])
        return dict(directed=d, graph=ints[1], nodes=sorted(nodes),
                    links=sorted(tuple(rest[i:i + 3]) for i in range(0, len(rest), 3)))
    if k in ('wsnaptext', 'winttext'):
        out, i = [], 0
        while i < len(ints):
            n = ints[i]
            out.append(''.join(chr(c) for c in ints[i + 1:i + 1 + n]))
            i += 1 + n
        return sorted(out)
    if k in ('has', 'hasnode', 'isempty'):
        return bool(ints[0])
    if k == 'nbrs':
        return 'NetworkXError' if ints[0] == -1 else sorted(ints[1:])
    if k == 'deg':
        return sorted(_pairs(ints))
    if k == 'inter':
        d = directed_of(op[1])
        if op[3] is not None:
            return sorted(_npair(d, u, v) for u, v in _pairs(ints))
        out = []
        i = 0
        while i < len(ints):
            u, v, n = ints[i], ints[i + 1], ints[i + 2]
            tl = tuple(_pairs(ints[i + 3:i + 3 + 2 * n]))
            out.append((_npair(d, u, v), tl))
            i += 3 + 2 * n
        return sorted(out)
    if k == 'nodes':
        return sorted(_pairs(ints))
    if k in ('nnodes', 'size'):
        return ints[0]
    if k == 'nint':
        return None if ints[0] == -1 else ints[0]
    if k == 'ids':
        return list(ints)
    if k == 'ips':
        if op[2] is not None:
            return Fraction(ints[0], 2)
        return sorted((t, Fraction(c, 2)) for t, c in _pairs(ints))
    if k == 'stream':
        d = directed_of(op[1])
        evs = [(ints[i + 3], _npair(d, ints[i], ints[i + 1]), '+' if ints[i + 2] else '-') for i in range(0, len(ints), 4)]
        return sorted(evs)
    if k == 'nodesnaps':
        return list(ints)
    if k in ('density', 'avgnodes'):
        return 'ZeroDivisionError' if ints[1] == 0 else Fraction(ints[0], ints[1])
    if k == 'deghist':
        return list(ints)
    if k == 'nonint':
        return sorted(_npair(False, u, v) for u, v in _pairs(ints))
    if k == 'meta':
        return tuple(ints)
    if k == 'tdag':
        if ints[0] == -1:
            return 'ValueError'
        i = 1
        def occs(i, per):
            n = ints[i]; i += 1
            out = []
            for _ in range(n):
                out.append(tuple(ints[i:i + per])); i += per
            return out, i
        edges, i = occs(i, 4)
        sources, i = occs(i, 2)
        targets, i = occs(i, 2)
        return dict(edges=sorted(((a, b), (c, d)) for a, b, c, d in edges), sources=sorted(sources), targets=sorted(targets))
    if k == 'trpsample':
        return 'subset-ok'
    if k == 'bigio':
        return 'OK'
    if k in ('trp', 'alltrp'):
        if ints[0] == -1:
            return 'ValueError'
        return sorted(_dec_paths(ints, 0)[0])
    if k == 'annotate':
        out, i = [], 0
        for _ in range(5):
            ps, i = _dec_paths(ints, i)
            out.append(sorted(set(ps)))      # classes are sets: the multiplicity of a repeated input path is not specified
        return dict(zip(['shortest', 'fastest', 'foremost', 'fastest_shortest', 'shortest_fastest'], out))
    if k == 'compact':
        return sorted(_pairs(ints))
    if k == 'occname':
        i = 0
        def text():
            nonlocal i
            n = ints[i]; r = ''.join(chr(c) for c in ints[i + 1:i + 1 + n]); i += 1 + n
            return r
        nu, nv = text(), text()
        if ints[i] == 0:
            return 'MODEL-DECODE-FAILED'
        i += 1; du = text()
        if ints[i] == 0:
            return 'MODEL-DECODE-FAILED'
        t = ints[i + 1]; i += 2; dv = text()
        if ints[i] == 0:
            return 'MODEL-DECODE-FAILED'
        i += 1; nn = text()
        return dict(names=[nu, nv], hop=(du, dv, t), node_of_target=nn)
    raise ValueError(op)


def _dec_paths(ints, i):
    n = ints[i]; i += 1
    out = []
    for _ in range(n):
        ln = ints[i]; i += 1
        out.append(tuple(tuple(ints[i + 3 * j:i + 3 * j + 3]) for j in range(ln)))
        i += 3 * ln
    return out, i


# ----------------------------------------------------------------------------------------------------------
# running the model
# ----------------------------------------------------------------------------------------------------------
def _big_stack():
    """the extracted model is structurally recursive on lists (not tail-recursive): on timelines of > 100 runs probed instant
    by instant the default 8 MiB stack of the child process is not always enough; raise its soft limit to the hard limit"""
    import resource
    try:
        soft, hard = resource.getrlimit(resource.RLIMIT_STACK)
        want = hard if hard != resource.RLIM_INFINITY else resource.RLIM_INFINITY
        resource.setrlimit(resource.RLIMIT_STACK, (want, hard))
    except Exception:
        pass


def run_model_raw(progs_encoded):
    """progs_encoded: list of programs, each a list of int lists. Returns list of list of int lists."""
    inp = []
    for p in progs_encoded:
        for op in p:
            inp.append(' '.join(str(x) for x in op))
        inp.append('.')
    res = subprocess.run([MODEL_BIN], input='\n'.join(inp) + '\n', capture_output=True, text=True, check=True,
                         preexec_fn=_big_stack)
    out, cur = [], []
    for line in res.stdout.split('\n'):
        if line == '.':
            out.append(cur)
            cur = []
        else:
            cur.append([int(x) for x in line.split()])
    assert len(out) == len(progs_encoded), (len(out), len(progs_encoded))
    return out


def directed_map(prog):
    """class of every register after the whole program (registers are never re-typed by the generators)"""
    d = {}
    for op in prog:
        if op[0] == 'new':
            d[op[1]] = bool(op[2])
        elif op[0] in ('rtsnap', 'rtint', 'rtnl'):
            d[op[2]] = d.get(op[1], False)
        elif op[0] == 'slice':
            d[op[2]] = d.get(op[1], False)
        elif op[0] == 'todir':
            d[op[2]] = True
        elif op[0] == 'toundir':
            d[op[2]] = False
        elif op[0] in ('rsnap', 'rint'):
            d[op[1]] = bool(op[2])
        elif op[0] == 'rtext':
            d[op[1]] = bool(op[3])
        elif op[0] == 'nlg':
            dd = op[2]
            d[op[1]] = bool(dd['directed']) if dd['directed'] is not None else bool(dd['dirarg'])
    return d


def run_model(progs):
    enc = [[encode_op(op) for op in p] for p in progs]
    raw = run_model_raw(enc)
    out = []
    for p, r in zip(progs, raw):
        dm = directed_map(p)
        assert len(r) == len(p), (len(r), len(p))
        out.append([decode_res(op, ints, lambda x: dm.get(x, False)) for op, ints in zip(p, r)])
    return out


# ----------------------------------------------------------------------------------------------------------
# running the implementation
# ----------------------------------------------------------------------------------------------------------
def _exc_name(x):
    import networkx as nx
    if isinstance(x, nx.NetworkXNotImplemented):
        return 'NetworkXNotImplemented'
    if isinstance(x, nx.NetworkXError):
        return 'NetworkXError'
    if isinstance(x, ValueError):
        return 'ValueError'
    if isinstance(x, KeyError):
        return 'KeyError'
    if isinstance(x, TypeError):
        return 'TypeError'
    return 'EXC:' + type(x).__name__


class Impl:
    """interprets a program against the real library"""

    def __init__(self, ids=None, functional=False):
        self.ids = ids or Ids('int')
        self.R = {}
        self.functional = functional  # use the dn.* wrappers / _iter forms where they exist

    def g(self, r):
        return self.R[r]

    # operations that only ask: the graph they are asked about must be left as it was (its nodes and attributes,
    # timelines, snapshot counters and event log -- the state the properties are anchored in)
    QUERIES = frozenset(['has', 'nbrs', 'deg', 'inter', 'nodes', 'hasnode', 'nnodes', 'nint', 'size', 'ids', 'ips', 'stream',
                         'streamchk', 'nodesnaps', 'density', 'deghist', 'isempty', 'nonint', 'avgnodes', 'stat', 'iet',
                         'tdag', 'trp', 'trpsample', 'alltrp', 'wsnap', 'wint', 'nld', 'wsnaptext', 'winttext',
                         'slice', 'todir', 'toundir', 'rtsnap', 'rtint', 'rtnl'])

    def _stamp(self, r):
        G = self.R.get(r)
        if G is None or not hasattr(G, 'snapshots'):
            return None
        try:
            if len(G._node) > 30 or len(G.snapshots) > 60:      # large graphs: sizes and sums only
                return (len(G._node), len(G.snapshots), sum(G.snapshots.values()),
                        sum(len(b) for b in G.time_to_edge.values()), sum(len(nb) for nb in G._adj.values()))
            # only what can be observed: an empty bucket left in time_to_edge, say, is not a change
            return repr((G._node, G._adj, sorted(G.snapshots.items()),
                         sorted((t, list(b)) for t, b in G.time_to_edge.items() if len(b) > 0)))
        except Exception as x:
            return 'unprintable: %r' % (x,)

    def run(self, prog):
        out = []
        for op in prog:
            q = op[0] in self.QUERIES and len(op) > 1 and not isinstance(op[1], (list, tuple, dict))
            before = self._stamp(op[1]) if q else None
            del HANDED_OUT[:]
            try:
                res = self.step(op)
            except Exception as x:  # an exception the model cannot express
                res = _exc_name(x)
            if HANDED_OUT:
                # the answer is normally a canonical value built by step(); copy it only if it IS (or directly holds) a handed-out container
                ids_ = {id(r) for r in HANDED_OUT}
                if id(res) in ids_ or (isinstance(res, (list, tuple, dict, set)) and len(res) < 100000 and
                                       any(id(x) in ids_ for x in (res.values() if isinstance(res, dict) else res))):
                    try:
                        res = copy.deepcopy(res)
                    except Exception:
                        pass
                scribble_handed_out()
            if q and before is not None and self._stamp(op[1]) != before:
                res = 'IMPURE-QUERY: %s changed the graph it was asked about' % (op[0],)
            out.append(res)
        return out

    def step(self, op):
        D = dn()
        I = self.ids
        k = op[0]
        F = self.functional
        if k == 'new':
            _, r, d, rem = op
            self.R[r] = (D.DynDiGraph if d else D.DynGraph)(edge_removal=bool(rem))
            return None
        if k == 'add':
            _, r, u, v, t, e = op
            try:
                self.g(r).add_interaction(I.to(u), I.to(v), t=t, e=e)
                return 'Done'
            except Exception as x:
                return _exc_name(x)
        if k == 'addnode':
            _, r, n, a = op
            try:
                self.g(r).add_node(I.to(n), **attr_to(a))
                return 'Done'
            except Exception as x:
                return 'Frozen' if D.is_frozen(self.g(r)) else _exc_name(x)
        if k == 'freeze':
            D.freeze(self.g(op[1]))
            return None
        if k == 'nxcall':
            return nx_call(self, op)
        if k == 'bulk3':
            # add_interactions_from with the documented 3-tuples (u, v, d), d carrying a 't' entry as the tuples that
            # interactions() yields do
            _, r, t, e, l = op
            try:
                self.g(r).add_interactions_from([(I.to(a), I.to(b), {'t': [[x, y]]}) for a, b, x, y in l], t=t, e=e)
                return 'Done'
            except Exception as x:
                return _exc_name(x)
        if k == 'bulk':
            _, r, kind, t, e, l = op
            G = self.g(r)
            try:
                if kind == 'from':
                    G.add_interactions_from([(I.to(a), I.to(b)) for a, b in l], t=t, e=e)
                elif kind in ('fpath', 'fstar', 'fcycle'):
                    # the module-level helpers forward extra keyword arguments (the vanishing time e) to add_interactions_from
                    getattr(D, 'add_' + kind[1:])(G, [I.to(x) for x in l], t, **({} if e is None else {'e': e}))
                elif kind in ('path', 'star', 'cycle') and (F or not hasattr(G, 'add_' + kind)):
                    # DynDiGraph only defines add_path as a method; the module-level helpers serve both classes
                    getattr(D, 'add_' + kind)(G, [I.to(x) for x in l], t)
                elif kind == 'path':
                    G.add_path([I.to(x) for x in l], t=t)
                elif kind == 'star':
                    G.add_star([I.to(x) for x in l], t=t)
                elif kind == 'cycle':
                    G.add_cycle([I.to(x) for x in l], t=t)
                return 'Done'
            except Exception as x:
                return _exc_name(x)
        if k == 'clear':
            _, r, kind = op
            try:
                getattr(self.g(r), kind)()
                return 'Done'
            except Exception as x:
                return 'Frozen' if D.is_frozen(self.g(r)) else _exc_name(x)
        if k == 'annotate':
            from dynetx.algorithms import paths as al
            ps = [[tuple(h) for h in p] for p in op[2]]
            if op[1] == 'tuples':
                ps = [tuple(p) for p in ps]
            res = al.annotate_paths(ps)
            for p in ps:
                if al.path_length(p) != len(p) or al.path_duration(p) != p[-1][2] - p[0][2]:
                    return 'BAD-METRIC'
            return {kk: sorted(set(tuple(tuple(h) for h in p) for p in v)) for kk, v in res.items()}
        if k == 'compact':
            return sorted(D.compact_timeslot(list(op[2])).items())
        if k == 'bigio':
            if str(op[1]).startswith('dag-'):
                return big_dag_check(D, *op[1:])
            return big_span_check(D, *op[1:]) if str(op[1]).startswith('span-') else big_io_check(D, *op[1:])
        if k == 'occname':
            # the library's own naming of DAG occurrences and its decoding, on a one-interaction graph
            from dynetx.algorithms import paths as al
            _, u, v, t = op
            G = D.DynGraph()
            G.add_interaction(u, v, t)
            try:
                DAG, sources, targets, _nt, _tt = al.temporal_dag(G, u)
                res = al.time_respecting_paths(G, u, v)
            except Exception as x:
                return _exc_name(x)
            hops = [h for ps in res.values() for p in ps for h in p]
            if len(sources) != 1 or len(targets) != 1 or len(hops) != 1:
                return 'UNEXPECTED-SHAPE:%r %r %r' % (sources, targets, hops)
            return dict(names=[sources[0], targets[0]], hop=tuple(hops[0]), node_of_target=v)
        if k in ('rsnap', 'rint', 'nlg', 'rtext'):
            return self.step_io_read(op)
        if op[1] not in self.R:
            return 'NOREG'
        if k in ('wsnap', 'wint', 'nld', 'wsnaptext', 'winttext'):
            return self.step_io_write(op)
        if k in ('rtsnap', 'rtint', 'rtnl'):
            return self.step_io_rt(op)
        if k == 'dconf':
            import itertools as it
            from dynetx.algorithms import assortativity as asso
            _, r, sliding, start, delta, ptype, psize, alphas, tabs = op
            G = self.g(r)
            names = ['l%d' % i for i in range(len(tabs))]
            # label values are opaque categories: strings, ints (0 is a legal class code), '' and () included
            _s = sum(len(t) + sum(t.values()) for t in tabs)
            rep = [lambda v: 'v%d' % v, lambda v: v, lambda v: '' if v == 0 else 'v%d' % v, lambda v: () if v == 0 else (v,)][_s % 4]
            if (_s // 4) % 4 == 3:
                # distinct categories whose TEXT coincides: 0 and '0', 1 and '1' (or 0.5 and '0.5')
                rep = [lambda v: (v // 2) if v % 2 == 0 else str(v // 2),
                       lambda v: (v // 2 + 0.5) if v % 2 == 0 else str(v // 2 + 0.5)][(_s // 16) % 2]
            for nm, tab in zip(names, tabs):
                for n, val in tab.items():
                    if I.to(n) in G._node:
                        G._node[I.to(n)][nm] = rep(val)
            profs = [p for i in range(1, psize + 1) for p in it.combinations(names, i)]
            pidx = {'_'.join(p): i for i, p in enumerate(profs)}
            try:
                if sliding:
                    res = asso.sliding_delta_conformity(G, delta, [float(a) for a in alphas], names, profile_size=psize, path_type=ptype)
                    out = {}
                    for al, d1 in res.items():
                        for pn, d2 in d1.items():
                            for n, seq in d2.items():
                                for (st, val) in seq:
                                    out[(st, int(float(al)), pidx[pn], I.back(n))] = Approx(val)
                    return out
                res = asso.delta_conformity(G, start, delta, [float(a) for a in alphas], names, profile_size=psize, path_type=ptype)
            except ValueError:
                return 'ValueError'
            except Exception as x:
                return _exc_name(x)
            if res is None:
                return 'None'
            return {(0, int(float(al)), pidx[pn], I.back(n)): Approx(val) for al, d1 in res.items() for pn, d2 in d1.items() for n, val in d2.items()}
        if k == 'stat':
            _, r, which, u, v = op
            G = self.g(r)
            try:
                if which in ('coverage', 'uniformity', 'density'):
                    res = getattr(G, which)()
                elif which in ('node_contribution', 'node_density', 'node_presence'):
                    res = getattr(G, which)(I.to(u))
                elif which == 'snapshot_density':
                    res = G.snapshot_density(u)
                else:
                    res = getattr(G, which)(I.to(u), I.to(v))
            except ZeroDivisionError:
                return 'ZeroDivisionError'
            except Exception as x:
                return _exc_name(x)
            if which == 'node_presence':
                return sorted(res)
            return _to_fraction(res)
        if k == 'iet':
            _, r, sel, u = op
            G = self.g(r)
            try:
                if sel == 'global':
                    res = (D.inter_event_time_distribution(G) if F else G.inter_event_time_distribution())
                elif sel == 'node':
                    res = (D.inter_event_time_distribution(G, I.to(u)) if F else G.inter_event_time_distribution(I.to(u)))
                elif sel == 'outglobal':     # the in/out variants without a node are the global distribution
                    res = G.inter_out_event_time_distribution()
                elif sel == 'inglobal':
                    res = G.inter_in_event_time_distribution()
                elif sel == 'out':
                    res = G.inter_out_event_time_distribution(I.to(u))
                else:
                    res = G.inter_in_event_time_distribution(I.to(u))
            except Exception as x:
                return _exc_name(x)
            return sorted(res.items())  # the register was never produced (its constructor raised): nothing to observe
        G = self.g(op[1])
        d = G.is_directed()
        if k == 'poke':
            n = I.to(op[2])
            if n in G._node:
                G._node[n].setdefault('nest', []).append(9)
                G._node[n]['a'] = 777
            G.graph.setdefault('nest', []).append(9)
            G.graph['a'] = 777
            return None
        if k == 'gattr':
            G.graph.update(gattr_to(op[2]))
            return None
        if k == 'streamchk':
            raw = list(G.stream_interactions())
            ts = [x[3] for x in raw]
            keys = [(x[3], _npair(d, I.back(x[0]), I.back(x[1])), x[2]) for x in raw]
            return (all(a <= b for a, b in zip(ts, ts[1:])), len(set(keys)) == len(keys))
        if k == 'has':
            _, r, u, v, t = op
            if F and d:
                a, b = bool(G.has_successor(I.to(u), I.to(v), t)), bool(G.has_predecessor(I.to(v), I.to(u), t))
                return a if a == b else 'SUCC-PRED-MISMATCH'
            return bool(G.has_interaction(I.to(u), I.to(v), t=t))
        if k == 'nbrs':
            _, r, kind, n, t = op
            try:
                if kind in ('neighbors', 'successors', 'predecessors'):
                    if F == 2 and kind == 'neighbors' and (d or I.to(n) in G._node):
                        res = G.neighbors_iter(I.to(n), t=t)
                    elif F and kind == 'neighbors':
                        res = D.neighbors(G, I.to(n), t=t)
                    elif F:
                        res = getattr(G, kind + '_iter')(I.to(n), t=t)
                    else:
                        res = getattr(G, kind)(I.to(n), t=t)
                elif kind == 'all_neighbors':
                    res = D.all_neighbors(G, I.to(n), t=t)
                else:
                    res = D.non_neighbors(G, I.to(n), t=t)
                return sorted(I.back(x) for x in res)
            except Exception as x:
                return _exc_name(x)
        if k == 'deg':
            _, r, kind, t, nb = op
            if isinstance(nb, tuple) and len(nb) == 2 and nb[0] == 'one':
                # scalar nbunch: a number for a node of the graph
                x = I.to(nb[1])
                if x not in G._node:
                    return []   # a scalar that is not a node: networkx raises NetworkXError by design -- not exercised
                res = (D.degree(G, x, t) if (F and kind == 'degree') else getattr(G, kind)(x, t))
                if isinstance(res, dict):
                    return sorted((I.back(n), dd) for n, dd in res.items())
                return [(nb[1], res)]
            if isinstance(nb, tuple) and len(nb) == 2 and nb[0] == 'iter':
                nbx = iter([I.to(x) for x in nb[1]])          # "the container will be iterated through once"
            else:
                nbx = None if nb is None else [I.to(x) for x in nb]
            if F == 2:
                res = dict(getattr(G, kind + '_iter')(nbx, t))
            elif F and kind == 'degree':
                res = D.degree(G, nbx, t)
            elif F:
                res = dict(getattr(G, kind + '_iter')(nbx, t))
            else:
                res = getattr(G, kind)(nbx, t)
            return sorted((I.back(n), dd) for n, dd in res.items())
        if k == 'inter':
            _, r, kind, t, nb = op
            nbx = None if nb is None else [I.to(x) for x in nb]
            if F == 2:
                res = list(getattr(G, kind + '_iter')(nbx, t))
            elif F and kind == 'interactions':
                res = D.interactions(G, nbx, t=t)
            elif F:
                res = list(getattr(G, kind + '_iter')(nbx, t))
            else:
                res = getattr(G, kind)(nbx, t)
            if t is not None:
                for x in res:
                    if x[2] != {'t': [t]}:
                        return 'BAD-DATA:%r' % (x,)
                return sorted(_npair(d, I.back(u), I.back(v)) for u, v, _ in res)
            return sorted((_npair(d, I.back(u), I.back(v)), tuple((a, b) for a, b in dd['t'])) for u, v, dd in res)
        if k == 'nodes':
            _, r, t = op
            if F == 2:
                ns = list(G.nodes_iter(t=t))
                data = {n: G._node[n] for n in ns}
                return sorted((I.back(n), attr_back(a)) for n, a in data.items())
            if F:
                ns = D.nodes(G, t)
                data = {n: G._node[n] for n in ns}
                return sorted((I.back(n), attr_back(a)) for n, a in data.items())
            return sorted((I.back(n), attr_back(a)) for n, a in G.nodes(t=t, data=True))
        if k == 'hasnode':
            _, r, n, t = op
            return bool(G.has_node(I.to(n), t))
        if k == 'nnodes':
            _, r, t = op
            if F:
                return D.number_of_nodes(G, t)
            if not d:
                a, b = G.number_of_nodes(t), G.order(t)
                return a if a == b else 'ORDER-MISMATCH'
            return G.number_of_nodes(t)
        if k == 'nint':
            _, r, uv, t = op
            if uv is None:
                return D.number_of_interactions(G, t=t) if F else G.number_of_interactions(t=t)
            u, v = I.to(uv[0]), I.to(uv[1])
            return D.number_of_interactions(G, u, v, t) if F else G.number_of_interactions(u, v, t)
        if k == 'size':
            _, r, t = op
            return G.size(t)
        if k == 'ids':
            return list(D.temporal_snapshots_ids(G) if F else G.temporal_snapshots_ids())
        if k == 'ips':
            _, r, t = op
            res = D.interactions_per_snapshots(G, t) if F else G.interactions_per_snapshots(t)
            if t is not None:
                return Fraction(res).limit_denominator(4)
            return sorted((kk, Fraction(v).limit_denominator(4)) for kk, v in res.items())
        if k == 'stream':
            res = list(D.stream_interactions(G) if F else G.stream_interactions())
            return sorted((t, _npair(d, I.back(u), I.back(v)), o) for u, v, o, t in res)
        if k == 'nodesnaps':
            return list(G.get_node_snapshots(I.to(op[2])))
        if k == 'density':
            _, r, t = op
            return Fraction(D.density(G, t)).limit_denominator(10 ** 6)
        if k == 'deghist':
            _, r, t = op
            return list(D.degree_histogram(G, t))
        if k == 'isempty':
            return bool(D.is_empty(G))
        if k == 'nonint':
            _, r, t = op
            return sorted(_npair(False, I.back(u), I.back(v)) for u, v in D.non_interactions(G, t))
        if k == 'avgnodes':
            try:
                return Fraction(G.avg_number_of_nodes()).limit_denominator(10 ** 6)
            except ZeroDivisionError:
                return 'ZeroDivisionError'
        if k == 'meta':
            return (int(G.is_directed()), int(G.edge_removal), attr_back(G.graph), int(bool(D.is_frozen(G))))
        if k == 'tdag':
            from dynetx.algorithms import paths as al
            _, r, u, v, st, en = op
            try:
                DG, sources, targets, _, _ = al.temporal_dag(G, I.to(u), None if v is None else I.to(v), start=st, end=en)
            except Exception as x:
                return _exc_name(x)
            def dec(s):
                a, b = str(s).rsplit('_', 1)
                return (I.back(type(I.to(0))(a)) if not isinstance(I.to(0), str) else I.back(a), int(b))
            try:
                acyc = __import__('networkx').is_directed_acyclic_graph(DG)
                es = sorted((dec(a), dec(b)) for a, b in DG.edges())
                nodes_ok = all(x in DG for x in list(sources) + list(targets))
                res = dict(edges=es, sources=sorted(dec(x) for x in sources), targets=sorted(dec(x) for x in targets))
                self.last_dag_info = dict(acyclic=acyc, nodes_ok=nodes_ok)
                res['_acyclic'] = acyc
                res['_nodes_ok'] = nodes_ok
                return res
            except Exception as x:
                return 'DECODE:' + _exc_name(x)
        if k == 'trp':
            from dynetx.algorithms import paths as al
            _, r, u, v, st, en = op
            try:
                res = al.time_respecting_paths(G, I.to(u), None if v is None else I.to(v), start=st, end=en)
            except Exception as x:
                return _exc_name(x)
            return _canon_paths(res, I)
        if k == 'trpsample':
            import numpy as np
            from dynetx.algorithms import paths as al
            _, r, u, v, st, en, frac, seed = op
            try:
                full = _canon_paths(al.time_respecting_paths(G, I.to(u), None if v is None else I.to(v), start=st, end=en), I)
                np.random.seed(seed)
                sub = _canon_paths(al.time_respecting_paths(G, I.to(u), None if v is None else I.to(v), start=st, end=en, sample=frac), I)
            except ValueError:
                return 'subset-ok'
            except Exception as x:
                return _exc_name(x)
            if isinstance(full, list) and isinstance(sub, list) and set(sub) <= set(full):
                return 'subset-ok'
            return 'NOT-SUBSET:%r' % ([p for p in sub if p not in full][:2] if isinstance(sub, list) else sub,)
        if k == 'alltrp':
            from dynetx.algorithms import paths as al
            _, r, st, en, mt = op
            try:
                res = al.all_time_respecting_paths(G, start=st, end=en, min_t=mt)
            except Exception as x:
                return _exc_name(x)
            return _canon_paths(res, I)
        if k == 'slice':
            _, s, dst, a, b = op
            try:
                H = (D.time_slice(G, a, b) if F else G.time_slice(a, b))
                self.R[dst] = H
                return 'Done'
            except Exception as x:
                return _exc_name(x)
        if k == 'todir':
            try:
                self.R[op[2]] = G.to_directed()
                return 'Done'
            except Exception as x:
                return _exc_name(x)
        if k == 'toundir':
            try:
                self.R[op[2]] = G.to_undirected(reciprocal=bool(op[3]))
                return 'Done'
            except Exception as x:
                return _exc_name(x)
        raise ValueError(op)


def _io_methods():
    import io, os, gzip, bz2, json, tempfile

    def workdir():
        d = os.path.join(VERIF, '.work', str(os.getpid()))
        os.makedirs(d, exist_ok=True)
        return d

    def write_graph(self, G, fmt, kind):
        D = dn()
        delim, enc, target = fmt.get('delim', ' '), fmt.get('enc', 'utf-8'), fmt.get('target', 'plain')
        fn = D.write_snapshots if kind == 'snap' else D.write_interactions
        if target == 'fileobj':
            buf = io.BytesIO()
            fn(G, buf, delimiter=delim, encoding=enc)
            raw = buf.getvalue()
        else:
            path = os.path.join(workdir(), 'w' + {'plain': '.txt', 'gz': '.gz', 'bz2': '.bz2'}[target])
            fn(G, path, delimiter=delim, encoding=enc)
            data = open(path, 'rb').read()
            raw = gzip.decompress(data) if target == 'gz' else bz2.decompress(data) if target == 'bz2' else data
            os.remove(path)
        return raw.decode(enc)

    def step_io_write(self, op):
        D = dn()
        I = self.ids
        k = op[0]
        G = self.g(op[1])
        d = G.is_directed()
        try:
            if k in ('wsnap', 'wsnaptext'):
                fmt = op[2] if k == 'wsnap' else dict(delim=op[2])
                text = write_graph(self, G, fmt, 'snap')
                if text and not text.endswith('\n'):
                    return 'NO-FINAL-NEWLINE'
                lines = text.split('\n')[:-1] if text else []
                if k == 'wsnaptext':
                    return sorted(lines)
                rows = []
                for ln in lines:
                    f = ln.split(fmt.get('delim', ' '))
                    if len(f) != 3:
                        return 'BAD-ROW:%r' % ln
                    rows.append((I.back(_unstr(I, f[0])), I.back(_unstr(I, f[1])), int(f[2])))
                return sorted(rows)
            if k in ('wint', 'winttext'):
                fmt = op[2] if k == 'wint' else dict(delim=op[2])
                text = write_graph(self, G, fmt, 'int')
                lines = text.split('\n')[:-1] if text else []
                if k == 'winttext':
                    if not d:
                        # the event keeps the endpoint order of the call that created it; the model stores (min,max)
                        dl = op[2]
                        lines = [dl.join(sorted(ln.split(dl)[:2], key=int) + ln.split(dl)[2:]) for ln in lines]
                    return sorted(lines)
                rows = []
                for ln in lines:
                    f = ln.split(fmt.get('delim', ' '))
                    if len(f) != 4 or f[2] not in '+-':
                        return 'BAD-ROW:%r' % ln
                    rows.append((int(f[3]), _npair(d, I.back(_unstr(I, f[0])), I.back(_unstr(I, f[1]))), f[2]))
                if [r[0] for r in rows] != sorted(r[0] for r in rows):
                    return 'NOT-CHRONOLOGICAL'
                return sorted(rows)
            if k == 'nld':
                from dynetx.readwrite import json_graph
                data = json.loads(json.dumps(json_graph.node_link_data(G)))
                self.last_nld = data
                nodes = sorted((I.back(_unjson(I, n['id'])), attr_back({kk: vv for kk, vv in n.items() if kk != 'id'})) for n in data['nodes'])
                links = sorted((I.back(_unjson(I, l['source'])), I.back(_unjson(I, l['target'])), l['time']) for l in data['links'])
                for l in data['links']:
                    if set(l) != {'source', 'target', 'time'}:
                        return 'BAD-LINK:%r' % (l,)
                return dict(directed=bool(data['directed']), graph=attr_back(data['graph']), nodes=nodes, links=links)
        except Exception as x:
            return _exc_name(x)

    def step_io_read(self, op):
        D = dn()
        I = self.ids
        k = op[0]
        try:
            if k in ('rsnap', 'rint'):
                _, dst, d, rows, fmt = op
                delim, enc, target = fmt.get('delim', ' '), fmt.get('enc', 'utf-8'), fmt.get('target', 'plain')
                if k == 'rsnap':
                    lines = [delim.join([str(I.to(u)), str(I.to(v)), str(t)] + ([] if e is None else [str(e)])) for (u, v, t, e) in rows]
                else:
                    lines = [delim.join([str(I.to(u)), str(I.to(v)), o, str(t)]) for (u, v, o, t) in rows]
                data = ('\n'.join(lines) + ('\n' if lines else '')).encode(enc)
                ntype = {'int': int, 'str': str, 'ustr': str, 'lb': str}.get(I.family)
                fn = D.read_snapshots if k == 'rsnap' else D.read_interactions
                kw = dict(directed=bool(d), nodetype=ntype, timestamptype=int, delimiter=(None if fmt.get('read_ws') else delim), encoding=enc)
                if target == 'fileobj':
                    G = fn(io.BytesIO(data), **kw)
                else:
                    path = os.path.join(workdir(), 'r' + {'plain': '.txt', 'gz': '.gz', 'bz2': '.bz2'}[target])
                    with (gzip.open(path, 'wb') if target == 'gz' else bz2.open(path, 'wb') if target == 'bz2' else open(path, 'wb')) as f:
                        f.write(data)
                    try:
                        G = fn(path, **kw)
                    finally:
                        os.remove(path)
                self.R[dst] = G
                return 'Done'
            if k == 'nlg':
                from dynetx.readwrite import json_graph
                _, dst, dd = op
                data = {'graph': gattr_to(dd['graph']),
                        'nodes': [dict(attr_to(a), id=I.to(n)) for n, a in dd['nodes']],
                        'links': [{'source': I.to(u), 'target': I.to(v), 'time': t} for u, v, t in dd['links']]}
                if dd['directed'] is not None:
                    data['directed'] = bool(dd['directed'])
                data = json.loads(json.dumps(data))
                if I.family == 'tuple':
                    return 'SKIP'
                self.R[dst] = json_graph.node_link_graph(data, directed=bool(dd['dirarg']))
                return 'Done'
            if k == 'rtext':
                _, dst, kind, d, m, delim, keys, lines = op
                path = os.path.join(workdir(), 't.txt')
                with open(path, 'wb') as f:
                    f.write(''.join(ln + '\n' for ln in lines).encode('utf-8'))
                fn = D.read_snapshots if kind == 'snap' else D.read_interactions
                try:
                    G = fn(path, comments=m, directed=bool(d), delimiter=delim, nodetype=int, timestamptype=int, keys=bool(keys))
                finally:
                    os.remove(path)
                self.R[dst] = G
                return 'Done'
        except Exception as x:
            return _exc_name(x)

    def step_io_rt(self, op):
        D = dn()
        I = self.ids
        k = op[0]
        G = self.g(op[1])
        fmt = op[3] if k != 'rtnl' and len(op) > 3 else {}
        try:
            if k == 'rtnl':
                from dynetx.readwrite import json_graph
                data = json.loads(json.dumps(json_graph.node_link_data(G)))
                if I.family == 'tuple':
                    return 'SKIP'
                self.R[op[2]] = json_graph.node_link_graph(data, directed=bool(op[3]))
                return 'Done'
            delim, enc, target = fmt.get('delim', ' '), fmt.get('enc', 'utf-8'), fmt.get('target', 'plain')
            ntype = {'int': int, 'str': str, 'ustr': str, 'lb': str}.get(I.family)
            wfn = D.write_snapshots if k == 'rtsnap' else D.write_interactions
            rfn = D.read_snapshots if k == 'rtsnap' else D.read_interactions
            kw = dict(directed=G.is_directed(), nodetype=ntype, timestamptype=int, delimiter=delim, encoding=enc)
            if target == 'fileobj':
                buf = io.BytesIO()
                wfn(G, buf, delimiter=delim, encoding=enc)
                H = rfn(io.BytesIO(buf.getvalue()), **kw)
            else:
                path = os.path.join(workdir(), 'rt' + {'plain': '.txt', 'gz': '.gz', 'bz2': '.bz2'}[target])
                try:
                    wfn(G, path, delimiter=delim, encoding=enc)
                    H = rfn(path, **kw)
                finally:
                    if os.path.exists(path):
                        os.remove(path)
            self.R[op[2]] = H
            return 'Done'
        except Exception as x:
            return _exc_name(x)

    Impl.step_io_rt = step_io_rt
    Impl.step_io_write = step_io_write
    Impl.step_io_read = step_io_read


def _runs_union(runs):
    out = []
    for a, b in sorted(runs):
        if out and a <= out[-1][1] + 1:
            out[-1][1] = max(out[-1][1], b)
        else:
            out.append([a, b])
    return [tuple(x) for x in out]


def _runs_inter(r1, r2):
    out = []
    for a, b in r1:
        for c, d in r2:
            lo, hi = max(a, c), min(b, d)
            if lo <= hi:
                out.append((lo, hi))
    return _runs_union(out)


def big_span_check(D, kind, directed, L, T0):
    """runs of L (>= 10^5) instants starting at T0 (epoch-size): presence, timelines, slices and conversions checked by
    interval arithmetic at and around every run boundary (implementation side only: the per-instant snapshot table
    of the list-based model cannot hold such runs).  Returns 'OK' or what went wrong."""
    def tl(H, u, v):
        for a, b, d in (H.out_interactions() if H.is_directed() else H.interactions()):
            if (a, b) == (u, v) or (not H.is_directed() and (b, a) == (u, v)):
                return [tuple(x) for x in d['t']]
        return []

    def check_presence(H, u, v, runs, what):
        if tl(H, u, v) != runs:
            return 'FAIL: %s: timeline of %r-%r is %r, expected %r' % (what, u, v, tl(H, u, v)[:4], runs[:4])
        pts = sorted({x + dx for a, b in runs for x in (a, b) for dx in (-1, 0, 1)})
        for t in pts:
            exp = any(a <= t <= b for a, b in runs)
            if H.has_interaction(u, v, t) != exp:
                return 'FAIL: %s: has_interaction(%r, %r, %d) is %r' % (what, u, v, t, not exp)
        return None
    try:
        cls = D.DynDiGraph if directed else D.DynGraph
        if kind == 'span-core':
            G = cls()
            G.add_interaction(1, 2, t=T0, e=T0 + L + 1)                   # [T0, T0+L]
            G.add_interaction(1, 2, t=T0 + L + 1, e=T0 + L + 4)           # adjacent: merges
            G.add_interaction(1, 2, t=T0 + L + 10, e=T0 + 2 * L)          # gap: second run
            G.add_interaction(1, 2, t=T0 + L + 10)                        # contained
            r = check_presence(G, 1, 2, [(T0, T0 + L + 3), (T0 + L + 10, T0 + 2 * L - 1)], 'long runs')
            if r:
                return r
            ids = G.temporal_snapshots_ids()
            if len(ids) != (L + 4) + (L - 10) or ids[0] != T0 or ids[-1] != T0 + 2 * L - 1:
                return 'FAIL: long runs: %d snapshot ids from %r to %r' % (len(ids), ids[:1], ids[-1:])
            return 'OK'
        if kind == 'span-slice':
            G = cls()
            G.add_interaction(1, 2, t=T0, e=T0 + L + 1)
            G.add_interaction(2, 3, t=T0 + L, e=T0 + L + 6)               # starts on the last instant of the first
            for (a, b) in [(T0 + L, T0 + L + 2), (T0 - 3, T0), (T0 + 5, T0 + L - 5), (T0 + L, T0 + L), (T0 + L + 1, T0 + L + 9)]:
                H = G.time_slice(a, b)
                for (u, v, runs) in [(1, 2, [(T0, T0 + L)]), (2, 3, [(T0 + L, T0 + L + 5)])]:
                    r = check_presence(H, u, v, _runs_inter(runs, [(a, b)]), 'time_slice(%d, %d)' % (a - T0, b - T0))
                    if r:
                        return r
            return 'OK'
        if kind == 'span-conv':
            if directed:
                for k in (0, 1, 2, 7):                                    # instants shared by the two directions
                    G = D.DynDiGraph()
                    G.add_interaction(1, 2, t=T0, e=T0 + L + 1)                       # 1->2 on [T0, T0+L]
                    G.add_interaction(2, 1, t=T0 + L - k + 1, e=T0 + L + 9)           # 2->1 from T0+L-k+1
                    r1, r2 = [(T0, T0 + L)], [(T0 + L - k + 1, T0 + L + 8)]
                    H = G.to_undirected(reciprocal=True)
                    r = check_presence(H, 1, 2, _runs_inter(r1, r2), 'to_undirected(reciprocal=True), %d shared instants' % k)
                    if r:
                        return r
                    H = G.to_undirected()
                    r = check_presence(H, 1, 2, _runs_union(r1 + r2), 'to_undirected(), %d shared instants' % k)
                    if r:
                        return r
            else:
                G = D.DynGraph()
                G.add_interaction(1, 2, t=T0, e=T0 + L + 1)
                G.add_interaction(1, 2, t=T0 + L + 5, e=T0 + L + 7)
                H = G.to_directed()
                have = sorted(tl(H, 1, 2) or tl(H, 2, 1))
                if have != [(T0, T0 + L), (T0 + L + 5, T0 + L + 6)]:
                    return 'FAIL: to_directed(): timeline %r' % (have[:4],)
            return 'OK'
        if kind == 'span-file':
            # a run of more than a million instants written as a snapshot file: one 3-field row per instant, read back whole
            G = cls()
            G.add_interaction(1, 2, t=T0, e=T0 + L + 1)                   # [T0, T0+L]
            G.add_interaction(2, 3, t=T0 + 5, e=T0 + 9)                   # [T0+5, T0+8]
            G.add_interaction(1, 2, t=T0 + L + 7, e=T0 + L + 10)          # [T0+L+7, T0+L+9]
            G.add_interaction(3, 1, t=T0 + L + 8)
            exp = {(1, 2): [(T0, T0 + L), (T0 + L + 7, T0 + L + 9)], (2, 3): [(T0 + 5, T0 + 8)], (3, 1): [(T0 + L + 8, T0 + L + 8)]}
            path = os.path.join(VERIF, '.work', str(os.getpid()), 'longrun.txt')
            os.makedirs(os.path.dirname(path), exist_ok=True)
            try:
                D.write_snapshots(G, path)
                seen = {}
                with open(path, 'rb') as fh:
                    for ln in fh:
                        f = ln.decode('utf-8').split()
                        if len(f) != 3:
                            return 'FAIL: snapshot file of a long run has a row with %d fields: %r' % (len(f), ln[:60])
                        k = (int(f[0]), int(f[1]))
                        if not directed and k not in exp:
                            k = (k[1], k[0])
                        c = seen.setdefault(k, [0, None, None, 0])
                        t = int(f[2])
                        c[0] += 1
                        c[3] += t - T0
                        c[1] = t if c[1] is None else min(c[1], t)
                        c[2] = t if c[2] is None else max(c[2], t)
                for k, runs in exp.items():
                    n = sum(b - a + 1 for a, b in runs)
                    sm = sum((a - T0 + b - T0) * (b - a + 1) // 2 for a, b in runs)
                    got = seen.get(k, [0, None, None, 0])
                    if (got[0], got[1], got[2], got[3]) != (n, runs[0][0], runs[-1][1], sm):
                        return 'FAIL: snapshot file of a long run: pair %r has %d rows from %r to %r, expected %d rows from %d to %d' % (
                            k, got[0], got[1], got[2], n, runs[0][0], runs[-1][1])
                if set(seen) != set(exp):
                    return 'FAIL: snapshot file of a long run lists the pairs %r' % (sorted(seen),)
                H = D.read_snapshots(path, nodetype=int, timestamptype=int, directed=directed)
                for (u, v), runs in exp.items():
                    r = check_presence(H, u, v, runs, 'read back from the snapshot file')
                    if r:
                        return r
            finally:
                try:
                    os.remove(path)
                except OSError:
                    pass
            return 'OK'
        return 'FAIL: unknown kind %r' % (kind,)
    except Exception as x:
        return 'FAIL: ' + _exc_name(x) + ': ' + str(x)[:80]


def big_dag_check(D, kind, directed, N, T):
    """a LARGE temporal graph (N nodes, N*T/2 interactions, tens of thousands of live node occurrences in one temporal_dag call):
    implementation side only (the brute-force oracle and the per-pair probes of the small cases do not scale); the expected answer
    is known by construction.  Returns 'OK' or what went wrong."""
    try:
        from dynetx.algorithms import paths as al
        import networkx as nx
        G = (D.DynDiGraph if directed else D.DynGraph)()
        for k in range(1, N):                       # star around the root at t = 0
            G.add_interaction(0, k, 0)
        for t in range(1, T + 1):                   # fixed pairs at every later instant
            for j in range(1, N // 2):
                G.add_interaction(2 * j - 1, 2 * j, t)
        root_times = [0] + [t for t in range(1, T + 1) if t % 4 == 3 or t == T]
        for t in root_times[1:]:                    # the root meets node 1 again now and then
            G.add_interaction(0, 1, t)
        DAG, sources, targets, _nt, _tt = al.temporal_dag(G, 0)
        exp_sources = sorted('0_%d' % t for t in root_times)
        if sorted(sources) != exp_sources:
            return 'FAIL: sources of the root are %r..., expected %r' % (sorted(sources)[:8], exp_sources)
        if not nx.is_directed_acyclic_graph(DAG):
            return 'FAIL: the DAG has a cycle'
        srcs = set(sources)
        for a, b in DAG.edges():
            x, s_ = a.rsplit('_', 1)
            y, t_ = b.rsplit('_', 1)
            x, y, s_, t_ = int(x), int(y), int(s_), int(t_)
            if not G.has_interaction(x, y, t_):
                return 'FAIL: edge %s -> %s without an interaction %d-%d at %d' % (a, b, x, y, t_)
            if not (s_ < t_ or (a in srcs and s_ == t_)):
                return 'FAIL: edge %s -> %s does not respect time' % (a, b)
        for x in list(sources) + list(targets):
            if x not in DAG:
                return 'FAIL: %s listed but not in the DAG' % x
        # every pair partner is reachable from the root: node 2 at every instant >= 1 (0 -> 1 at 0, 1 -> 2 at t)
        if '2_%d' % T not in DAG:
            return 'FAIL: occurrence 2_%d missing' % T
        return 'OK'
    except Exception as x:
        return 'FAIL: %s: %s' % (type(x).__name__, x)


def big_io_check(D, kind, directed, n, keys, target):
    """multi-megabyte files: what is written is one row per interaction and instant / per event, and reading it back
    (optionally with keys=True) gives the same timelines and the same stream.  Returns 'OK' or what went wrong."""
    import io, os, gzip, bz2
    G = (D.DynDiGraph if directed else D.DynGraph)()
    t0 = 7
    if kind == 'snap':
        half = n // 2
        G.add_interaction(1, 2, t=t0, e=t0 + half)
        if directed:
            G.add_interaction(2, 1, t=t0 + 3, e=t0 + 3 + (n - half))
        else:
            G.add_interaction(2, 3, t=t0 + 3, e=t0 + 3 + (n - half))
        writer, reader = D.write_snapshots, D.read_snapshots
    else:
        for i in range(n // 2):
            t = t0 + i % 50
            G.add_interaction(2 * i, 2 * i + 1, t=t, e=t + 1 + i % 3)
        writer, reader = D.write_interactions, D.read_interactions
    tl = lambda H: sorted((u, v, tuple(map(tuple, d['t']))) for u, v, d in (H.out_interactions() if directed else H.interactions()))
    norm = lambda u, v: (u, v) if directed else (min(u, v), max(u, v))
    if target == 'fileobj':
        buf = io.BytesIO()
        writer(G, buf)
        data = buf.getvalue()
        path = None
    else:
        path = os.path.join(VERIF, '.work', str(os.getpid()), 'big' + {'plain': '.txt', 'gz': '.gz', 'bz2': '.bz2'}[target])
        os.makedirs(os.path.dirname(path), exist_ok=True)
        writer(G, path)
        raw = open(path, 'rb').read()
        data = gzip.decompress(raw) if target == 'gz' else bz2.decompress(raw) if target == 'bz2' else raw
    try:
        text = data.decode('utf-8')
        if not text.endswith('\n'):
            return 'FAIL: no final newline'
        lines = text.split('\n')[:-1]
        if kind == 'snap':
            exp = sorted((norm(u, v), t) for u, v, d in (G.out_interactions() if directed else G.interactions()) for a, b in d['t'] for t in range(a, b + 1))
            got = []
            for ln in lines:
                f = ln.split(' ')
                if len(f) != 3:
                    return 'FAIL: row %r' % ln
                got.append((norm(int(f[0]), int(f[1])), int(f[2])))
            if sorted(got) != exp:
                return 'FAIL: %d rows written, %d interactions x instants (first difference near row %d)' % (
                    len(got), len(exp), next((i for i, (a, b) in enumerate(zip(sorted(got), exp)) if a != b), min(len(got), len(exp))))
        else:
            exp = ['%s %s %s %s' % e for e in G.stream_interactions()]
            if [int(ln.rsplit(' ', 1)[1]) for ln in lines] != sorted(int(ln.rsplit(' ', 1)[1]) for ln in lines):
                return 'FAIL: the rows written are not in chronological order'
            if sorted(lines) != sorted(exp):
                return 'FAIL: %d rows written, the stream has %d events' % (len(lines), len(exp))
        kw = dict(nodetype=int, timestamptype=int, directed=directed)
        if keys:
            kw['keys'] = True
        H = reader(io.BytesIO(data), **kw) if path is None else reader(path, **kw)
        stamps = sorted({t for ln in lines for t in ([int(ln.split(' ')[-1])] if kind != 'snap' else [int(ln.split(' ')[2])])})
        rank = {t: (i if keys else t) for i, t in enumerate(stamps)}
        if kind == 'snap':
            want = sorted((u, v, tuple((rank[a], rank[b]) for a, b in runs)) for u, v, runs in tl(G))
            have = tl(H)
            if not directed:
                want = sorted((min(u, v), max(u, v), r) for u, v, r in want)
                have = sorted((min(u, v), max(u, v), r) for u, v, r in have)
            if have != want:
                return 'FAIL: timelines read back %r, written %r' % (have[:3], want[:3])
        else:
            # chronological order is part of the property, the order of the events of one instant is not
            ev = lambda K: [(norm(u, v), op, t) for u, v, op, t in K.stream_interactions()]
            want = [(p, op, rank[t]) for p, op, t in ev(G)]
            have = ev(H)
            if [x[2] for x in have] != sorted(x[2] for x in have):
                return 'FAIL: the stream read back is not chronological'
            want, have = sorted(want, key=lambda x: (x[2], x)), sorted(have, key=lambda x: (x[2], x))
            if have != want:
                return 'FAIL: %d events read back, %d written (first difference at %d)' % (
                    len(have), len(want), next((i for i, (a, b) in enumerate(zip(have, want)) if a != b), min(len(have), len(want))))
            if H.number_of_nodes() != G.number_of_nodes():
                return 'FAIL: %d nodes read back, %d written' % (H.number_of_nodes(), G.number_of_nodes())
        return 'OK'
    except Exception as x:
        return 'FAIL: ' + _exc_name(x) + ': ' + str(x)[:80]
    finally:
        if path is not None and os.path.exists(path):
            os.remove(path)


def _unstr(I, s):
    if I.family == 'int':
        return int(s)
    if I.family in ('str', 'ustr', 'lb'):
        return s
    raise ValueError('text formats are exercised with int and str ids only')


def _unjson(I, x):
    if I.family == 'tuple':
        return tuple(x)
    return x


_io_methods()


def graph_fingerprint(G):
    """every observable C19 speaks about: nodes+attributes, timelines, snapshot ids and counts, stream"""
    try:
        adj = G._succ if G.is_directed() else G._adj
        tl = sorted((repr(u), repr(v), repr(d.get('t', 'NO-TIMELINE'))) for u, nb in adj.items() for v, d in nb.items())
        if G.is_directed():
            tl += sorted(('pred', repr(u), repr(v), repr(d.get('t', 'NO-TIMELINE'))) for u, nb in G._pred.items() for v, d in nb.items())
        return (sorted((repr(n), repr(a)) for n, a in G._node.items()), tl,
                sorted(G.snapshots.items()), sorted(map(repr, G.stream_interactions())), repr(G.graph))
    except Exception as x:
        return 'FINGERPRINT-ERROR:' + repr(x)


def synth_args(G, name, I):
    """plausible arguments for an inherited networkx callable"""
    ns = list(G._node)
    a = ns[0] if ns else I.to(1)
    b = ns[-1] if ns else I.to(2)
    table = {
        'add_edge': (a, b), 'add_edges_from': ([(a, b)],), 'add_weighted_edges_from': ([(a, b, 1.0)],),
        'remove_edge': (a, b), 'remove_edges_from': ([(a, b)],), 'remove_node': (a,), 'remove_nodes_from': ([a],),
        'update': ((), dict(edges=[(a, I.to(77))])), 'edges_iter': (), 'in_edges': (), 'out_edges': (), 'in_edges_iter': (), 'out_edges_iter': (),
        'has_edge': (a, b), 'get_edge_data': (a, b), 'number_of_edges': (), 'nbunch_iter': ([a],), 'subgraph': ([a, b],),
        'edge_subgraph': ([(a, b)],), 'adjacency': (), 'has_successor': (a, b), 'has_predecessor': (a, b),
        'neighbors': (a,), 'successors': (a,), 'predecessors': (a,), 'has_node': (a,), 'degree': (), 'in_degree': (), 'out_degree': (),
        'copy': (), 'to_directed': (), 'to_undirected': (), 'reverse': (), 'size': (), 'order': (), 'number_of_nodes': (), 'nodes': (),
        'is_directed': (), 'is_multigraph': (), 'to_directed_class': (), 'to_undirected_class': (), '__len__': (),
    }
    v = table.get(name, ())
    if len(v) == 2 and isinstance(v[1], dict):
        return v[0], v[1]
    return v, {}


def nx_call(impl, op):
    """call the inherited callable op[2] on register op[1]; report how it ended and whether anything observable changed"""
    import networkx as nx
    _, r, name, _blocked = op
    G = impl.g(r)
    before = graph_fingerprint(G)
    args, kw = synth_args(G, name, impl.ids)
    if name.startswith('dn.'):
        fn = getattr(dn(), name[3:])
        attr = (lambda: fn(G, 'x'))
        args, kw = (), {}
    else:
        attr = getattr(G, name)
    raised = None
    try:
        if callable(attr):
            res = attr(*args, **kw)
            if hasattr(res, '__next__'):
                list(itertools.islice(res, 50))
        else:
            list(itertools.islice(iter(attr), 50)) if hasattr(attr, '__iter__') else None
    except nx.NetworkXNotImplemented:
        raised = 'NetworkXNotImplemented'
    except Exception as x:
        raised = 'other:' + type(x).__name__
    after = graph_fingerprint(G)
    if before != after:
        return 'CHANGED:%s:%s' % (name, raised)
    if _blocked == 2:
        # frozen graph: any exception that leaves the graph untouched counts as 'frozen'
        return 'Frozen' if raised else 'Done'
    if raised == 'NetworkXNotImplemented' and _blocked:
        return 'NetworkXNotImplemented'
    # not in the must-block list: a query, view or factory; it may itself end in NetworkXNotImplemented (copy(), reverse()
    # go through add_edges_from) -- what matters is that nothing observable changed
    return 'Done'


def _to_fraction(x):
    """the implementation returns int / int: recover the exact ratio (denominators are tiny)"""
    if isinstance(x, int):
        return Fraction(x)
    return Fraction(x).limit_denominator(10 ** 7)


def _canon_paths(res, I):
    """dict (first,last) -> list of tuple paths  ==> sorted list of paths; structural defects are reported"""
    if isinstance(res, list):
        return [] if res == [] else 'BAD-TYPE'
    out = []
    for k, ps in res.items():
        seen = set()
        for p in ps:
            if not isinstance(p, tuple) or len(p) == 0:
                return 'BAD-PATH:%r' % (p,)
            if (p[0][0], p[-1][1]) != k:
                return 'BAD-KEY:%r' % (k,)
            if p in seen:
                return 'DUPLICATE:%r' % (p,)
            seen.add(p)
            out.append(tuple((I.back(a), I.back(b), t) for a, b, t in p))
    return sorted(out)


def run_impl(prog, family='int', functional=False):
    return Impl(Ids(family), functional).run(prog)


def public(x):
    """implementation answers may carry oracle-only facts under keys starting with '_'"""
    if isinstance(x, dict):
        return {k: v for k, v in x.items() if not str(k).startswith('_')}
    return x


def diff_results(prog, ri, rm, obs=None, out_of_scope=None):
    """list of (index, op, impl, model) where the two answers differ (restricted to op kinds in obs; answers the
    property does not quantify over -- out_of_scope(op, impl, model) -- are not compared)"""
    out = []
    for i, (op, a, b) in enumerate(zip(prog, ri, rm)):
        if obs is not None and op[0] not in obs:
            continue
        if a == 'NOREG':
            continue
        if out_of_scope is not None and out_of_scope(op, a, b):
            continue
        if public(a) != b:
            out.append((i, op, a, b))
    return out


def jsonable(x):
    if isinstance(x, Fraction):
        return '%d/%d' % (x.numerator, x.denominator)
    if isinstance(x, (list, tuple)):
        return [jsonable(y) for y in x]
    if isinstance(x, dict):
        return {str(k): jsonable(v) for k, v in x.items()}
    if isinstance(x, (set, frozenset)):
        return sorted(jsonable(y) for y in x)
    return x
