"""Check engine shared by all properties (DESIGN section 4):
   1 build (incremental), recompile properties/Cxx.v, parse Print Assumptions
   2 cases := corpus ++ exhaustive(tier) ++ random(seed)
   3 run implementation and extracted model on every case, 4 evaluate the independent oracle on the implementation
   5-7 attribute failures to known findings or report VIOLATION (shrunk), 8 KNOWN-FINDING lines, 9 evidence.
"""
import os, sys, re, json, time, random, subprocess, hashlib, traceback, multiprocessing, glob, shutil
from core import VERIF, REPO, run_model, run_impl, diff_results, jsonable, public

COQ = os.path.join(VERIF, 'coq')
ALLOWED_AXIOMS = {
    # standard-library axioms that may appear (named in the trusted base when they do)
    'functional_extensionality_dep', 'Eqdep.Eq_rect_eq.eq_rect_eq', 'JMeq_eq', 'Classical_Prop.classic',
    'ProofIrrelevance.proof_irrelevance', 'propositional_extensionality',
}


def sh(cmd, timeout=3000, cwd=None):
    return subprocess.run(cmd, shell=True, capture_output=True, text=True, timeout=timeout, cwd=cwd)


def ensure_build():
    """incremental build of the whole development + extraction + driver"""
    r = sh(os.path.join(VERIF, 'setup.sh'))
    ok = (r.returncode == 0)
    return ok, (r.stdout + r.stderr)[-3000:]


def coqchk_status(pid):
    """independent re-check of the compiled property file (thorough tier): coqchk -o lists the axioms it relies on"""
    r = sh('timeout 1500 coqchk -silent -o -Q theories DynVerif DynVerif.properties.%s' % pid, cwd=COQ, timeout=1600)
    out = r.stdout + r.stderr
    ok = (r.returncode == 0)
    m = re.search(r'\* Axioms:(.*?)(\* |\Z)', out, re.S)
    axioms = re.sub(r'\s+', ' ', m.group(1)).strip() if m else ''
    return dict(ok=ok, axioms=axioms, tail=out[-800:])


def proof_status(pid):
    """recompile properties/<pid>.v, return dict(obligations, discharged, axioms, broken, log)"""
    src = os.path.join(COQ, 'theories', 'properties', pid + '.v')
    st = dict(obligations=0, discharged=0, axioms=[], broken=[], theorems=[], log='', checker_cmd='')
    if not os.path.exists(src):
        st['broken'].append('missing ' + src)
        return st
    text = open(src).read()
    thms = re.findall(r'^\s*(?:Theorem|Example)\s+([A-Za-z0-9_\']+)', text, re.M)
    st['theorems'] = thms
    st['obligations'] = len(thms)
    cmd = 'coqc -Q theories DynVerif theories/properties/%s.v' % pid
    st['checker_cmd'] = 'make -C coq (full .vo build) ; cd coq && ' + cmd + ' (Print Assumptions under every theorem)'
    r = sh('timeout 900 ' + cmd, cwd=COQ)
    st['log'] = (r.stdout + r.stderr)[-4000:]
    if r.returncode != 0:
        st['broken'].append('properties/%s.v does not compile: %s' % (pid, st['log'][-600:]))
        return st
    # every theorem must have a Print Assumptions answer
    out = r.stdout
    closed = out.count('Closed under the global context')
    ax_blocks = re.findall(r'Axioms:\n((?:.+\n?)+?)(?=\n\S|\Z)', out)
    axioms = []
    for b in ax_blocks:
        for line in b.split('\n'):
            m = re.match(r'^([A-Za-z0-9_\.\']+)\s*:', line)
            if m:
                axioms.append(m.group(1))
    st['axioms'] = sorted(set(axioms))
    n_pa = len(re.findall(r'^\s*Print Assumptions\s+([A-Za-z0-9_\']+)', text, re.M))
    bad_ax = [a for a in st['axioms'] if a not in ALLOWED_AXIOMS and a.split('.')[-1] not in ALLOWED_AXIOMS]
    if bad_ax:
        st['broken'].append('unexpected axioms: %s' % bad_ax)
    if closed + len(ax_blocks) < n_pa or n_pa < len([t for t in thms]):
        st['broken'].append('Print Assumptions answers (%d) < theorems (%d)' % (closed + len(ax_blocks), len(thms)))
    # forbidden words anywhere in the development
    g = sh(r"grep -rnE '\b(Admitted|admit|Axiom|Parameter|Conjecture|Unset Guard|bypass_check)\b' theories --include=*.v || true", cwd=COQ)
    hits = [l for l in g.stdout.split('\n') if l.strip() and not re.search(r'\(\*.*(Admitted|admit|Axiom|Parameter).*\*\)', l)]
    if hits:
        st['broken'].append('forbidden declarations: %s' % hits[:5])
    if not st['broken']:
        st['discharged'] = len(thms)
    return st


# ---------------------------------------------------------------------------------------------------
CHUNK_TIMEOUT = int(os.environ.get('VERIF_CHUNK_TIMEOUT', '1200'))


def case_hash(case):
    return hashlib.sha1(json.dumps(jsonable(case), sort_keys=True).encode()).hexdigest()[:16]


def impure(prog, ri):
    """a query (or a derivation: slice, conversion, writer) that changed the graph it was asked about"""
    return [dict(index=i, op=list(op), what=r) for i, (op, r) in enumerate(zip(prog, ri)) if isinstance(r, str) and r.startswith('IMPURE-QUERY')]


def full_program(P, case):
    """the property's program, with the graph's EARLIER LIFE spliced in after the creation of register 0 when the case
    has one (a few interactions, some reads, then clear()): a cleared graph is a fresh graph, so the property's own
    program and oracle are unaffected -- unless something of the earlier life survives.  Returns the full program and
    the slice of it the oracle does not see."""
    p = P.program(case)
    pre = case.get('prelife')
    if pre and p and p[0][0] == 'new' and p[0][1] == 0:
        pre = [tuple(tuple(x) if isinstance(x, list) else x for x in o) for o in pre]
        return p[:1] + pre + p[1:], (1, 1 + len(pre))
    return p, None


def strip(seq, cut):
    return seq if cut is None else seq[:cut[0]] + seq[cut[1]:]


PRELIFE_OBS = {'add', 'ids', 'has', 'clear', 'stream', 'nodes'}


CLEAR_EDGES_OK = {'C04', 'C05', 'C08', 'C12', 'C13', 'C15'}      # oracles that take the node set from the graph itself


def prelife_fails(P, case, pf, rif, cut):
    """the part of the earlier life that C04 / C19 themselves speak about: snapshot ids read during the earlier life are its inhabited
    instants, and after clear() / clear_edges() there are none (a cleared graph keeps no snapshot)"""
    if cut is None or P.id not in ('C04', 'C19'):
        return []
    removal = case.get('removal', True)
    inh, fails = set(), []
    for i in range(cut[0], cut[1]):
        op, r = pf[i], rif[i]
        if op[0] == 'add' and op[4] is not None and r == 'Done':
            if removal:
                inh |= set(range(op[4], op[4] + 1 if op[5] is None else op[5]))
            else:
                inh.add(op[4])
        elif op[0] == 'clear' and r == 'Done':
            inh = set()
        elif op[0] == 'ids' and isinstance(r, list) and r != sorted(inh):
            fails.append(dict(index=None, op=list(op), prelife_index=i - cut[0],
                              what='earlier life: snapshot ids %r, inhabited instants %r' % (r[:8], sorted(inh)[:8])))
    return fails


def add_prelife(rnd, case, pid=None):
    """with probability 0.15: the graph lived before (same object): adds at instants the case itself does not use,
    reads of ids / presence / stream (so that anything cached is cached), then clear()"""
    if pid in ('C12', 'C13', 'C15', 'C20') and 'hist' in case and rnd.random() < 0.12:
        # path algorithms: an earlier life that is a NEAR TWIN of the case (same number of snapshot ids, same first and last id, one
        # interior instant moved), queried for paths, then cleared -- whatever was memoised about the old timeline must not survive
        adds = [o for o in case['hist'] if o[0] == 'add' and o[4] is not None]
        S = sorted({o[4] for o in adds})
        free = [x for x in range(S[0] + 1, S[-1]) if x not in S] if len(S) >= 3 else []
        if free and len(adds) == len(case['hist']):
            m, m2 = rnd.choice(S[1:-1]), rnd.choice(free)
            pre = [(o[0], o[1], o[2], o[3], m2, None) if o[4] == m else (o[0], o[1], o[2], o[3], o[4], None) for o in adds]
            pre.sort(key=lambda o: o[4])
            root = adds[0][2]
            pre += [('ids', 0), ('tdag', 0, root, None, None, None), ('clear', 0, rnd.choice(['clear', 'clear_edges'] if pid in CLEAR_EDGES_OK else ['clear']))]
            case = dict(case)
            case['prelife'] = pre
            return case
    if rnd.random() >= 0.15 or 'hist' not in case:
        return case
    base = rnd.choice([40, 200, -60])
    pre = []
    for _ in range(rnd.randint(1, 4)):
        u, v = rnd.randint(1, 3), rnd.randint(1, 3)
        if u == v:
            v = u % 3 + 1
        t = base + rnd.randint(0, 3)
        pre.append(('add', 0, u, v, t, rnd.choice([None, None, t + 2])))
    pre.sort(key=lambda o: o[4])
    # clear_edges() keeps the nodes of the earlier life (as isolated nodes): only where the oracle does not derive the
    # node set from the history
    how = 'clear_edges' if (pid in CLEAR_EDGES_OK and rnd.random() < 0.5) else 'clear'
    pre += [('ids', 0), ('has', 0, 1, 2, base + 1), ('stream', 0), ('nodes', 0, None), ('clear', 0, how)]
    if rnd.random() < 0.4:
        pre.append(('ids', 0))      # reading right after the clear would refresh anything cached: not always
    case = dict(case)
    case['prelife'] = pre
    return case


def eval_chunk(args):
    """worker: run impl + model + oracle on a chunk of cases"""
    mod_name, cases = args
    import importlib
    P = importlib.import_module(mod_name).PROP
    fulls = [full_program(P, c) for c in cases]
    try:
        # cases the model does not cover ('nomodel': e.g. arguments whose meaning no property fixes) run on the
        # implementation only and are judged by the oracle alone
        rms = run_model([([] if c.get('nomodel') else fp) for c, (fp, _) in zip(cases, fulls)])
    except Exception as x:
        return dict(error='model run failed: %r' % (x,), results=[])
    res = []
    for c, (pf, cut), rmf in zip(cases, fulls, rms):
        rif = run_impl(pf, family=c.get('family', 'int'), functional=c.get('functional', False))
        if c.get('nomodel'):
            rmf = [None] * len(pf)
        p, ri, rm = strip(pf, cut), strip(rif, cut), strip(rmf, cut)
        fails = P.oracle(c, p, ri) + impure(p, ri) + prelife_fails(P, c, pf, rif, cut)
        for f in fails:
            i = f.get('index')
            f['impl_eq_model'] = (i is not None and not c.get('nomodel') and public(ri[i]) == rm[i])
        dis = [] if c.get('nomodel') else diff_results(p, ri, rm, P.obs, getattr(P, 'out_of_scope', None))
        if cut is not None and not c.get('nomodel'):
            dis += diff_results(pf[cut[0]:cut[1]], rif[cut[0]:cut[1]], rmf[cut[0]:cut[1]], PRELIFE_OBS)
        res.append(dict(fails=fails, dis=[(i, list(op), jsonable(a), jsonable(b)) for i, op, a, b in dis[:3]], ndis=len(dis),
                        nt=bool(P.nontrivial(c, p, ri)), cls=dict(P.classify(c, p, ri), **({'earlier_life_then_clear': 1} if cut else {})), nops=len(pf)))
    return dict(error=None, results=res)


def eval_one(P, case):
    pf, cut = full_program(P, case)
    rif = run_impl(pf, family=case.get('family', 'int'), functional=case.get('functional', False))
    rmf = [None] * len(pf) if case.get('nomodel') else run_model([pf])[0]
    p, ri, rm = strip(pf, cut), strip(rif, cut), strip(rmf, cut)
    fails = P.oracle(case, p, ri) + impure(p, ri) + prelife_fails(P, case, pf, rif, cut)
    for f in fails:
        i = f.get('index')
        f['impl_eq_model'] = (i is not None and not case.get('nomodel') and public(ri[i]) == rm[i])
    dis = [] if case.get('nomodel') else diff_results(p, ri, rm, P.obs, getattr(P, 'out_of_scope', None))
    return p, ri, rm, fails, dis


def unexplained(P, fails, known):
    """failures not attributable to a listed finding (trigger listed AND impl == faithful model)"""
    out = []
    for f in fails:
        trig = f.get('trigger')
        if trig and trig in known and f.get('impl_eq_model'):
            continue
        out.append(f)
    return out


def replay_rank(cf):
    """which failing case becomes the replay: one that also runs on the model (small, shrinkable) before an
    implementation-side-only case (multi-megabyte files, 1 200-node graphs), then the shortest"""
    c = cf[0]
    big = isinstance(c, dict) and (c.get('kind') == 'bigio' or bool(c.get('nomodel')))
    return (1 if big else 0, len(json.dumps(jsonable(c))))


SHRINK_SECONDS = float(os.environ.get('VERIF_SHRINK_SECONDS', '150'))


def shrink(P, case, known, budget=400):
    """greedy delta debugging with the property's own candidate generator; keeps a case while the
    implementation still fails the oracle in an unexplained way.  Bounded by a number of re-executions AND by wall time
    (a failing case with a 300-run timeline takes seconds per execution): what is reached by then is the replay."""
    cur = case
    steps = 0
    improved = True
    t_end = time.time() + SHRINK_SECONDS
    while improved and steps < budget and time.time() < t_end:
        improved = False
        def cands():
            if cur.get('prelife'):
                c0 = dict(cur); c0.pop('prelife'); yield c0
            yield from P.shrink_candidates(cur)
        for cand in cands():
            steps += 1
            if steps > budget or time.time() > t_end:
                break
            try:
                _, _, _, fails, _ = eval_one(P, cand)
            except Exception:
                continue
            if unexplained(P, fails, known):
                cur = cand
                improved = True
                break
    return cur


def load_known(pid):
    path = os.path.join(VERIF, 'known_findings.json')
    if not os.path.exists(path):
        return []
    data = json.load(open(path))
    return [e for e in data.get('findings', []) if e.get('property') == pid and e.get('status') == 'finding']


def write_replay(pid, kind, payload):
    d = os.path.join(VERIF, 'replays')
    os.makedirs(d, exist_ok=True)
    path = os.path.join(d, '%s_%s_%d.json' % (pid, kind, int(time.time() * 1000) % 10 ** 9))
    json.dump(jsonable(payload), open(path, 'w'), indent=1)
    return path


def vm_crosscheck(pid, progs):
    """evaluate a sample of programs INSIDE Coq (vm_compute) and compare with the extracted OCaml model:
    extraction and the OCaml driver are thereby tested, not merely trusted"""
    import ast
    from core import encode_op, run_model_raw
    enc = [[encode_op(op) for op in p] for p in progs]
    d = os.path.join(COQ, '.crosscheck')
    os.makedirs(d, exist_ok=True)
    path = os.path.join(d, 'cases_%s_%d.v' % (pid, os.getpid()))
    lit = lambda l: '[' + '; '.join(str(x) if x >= 0 else '(%d)' % x for x in l) + ']'
    with open(path, 'w') as f:
        f.write('From DynVerif Require Import Base Encode.\nSet Printing Depth 1000000.\nSet Printing Width 200.\n')
        for p in enc:
            f.write('Eval vm_compute in (run_prog [%s]).\n' % '; '.join(lit(op) for op in p))
    r = sh('timeout 600 coqc -Q theories DynVerif %s' % path, cwd=COQ, timeout=700)
    for ext in ('.v', '.vo', '.vok', '.vos', '.glob'):
        try:
            os.remove(path[:-2] + ext)
        except OSError:
            pass
    try:
        os.remove(os.path.join(d, '.' + os.path.basename(path)[:-2] + '.aux'))
    except OSError:
        pass
    if r.returncode != 0:
        return dict(checked=0, mismatches=['coqc failed: ' + (r.stdout + r.stderr)[-300:]])
    blocks = re.findall(r'=\s*(\[.*?\])\s*:\s*list \(list Z\)', r.stdout, re.S)
    coq_res = [ast.literal_eval(re.sub(r'\s+', ' ', b).replace(';', ',')) for b in blocks]
    ocaml = run_model_raw(enc)
    mism = []
    if len(coq_res) != len(ocaml):
        mism.append('parsed %d results, expected %d' % (len(coq_res), len(ocaml)))
    for i, (a, b) in enumerate(zip(coq_res, ocaml)):
        if a != b:
            mism.append(dict(program=i, coq=a[:5], ocaml=b[:5]))
    return dict(checked=len(coq_res), mismatches=mism[:3])


def chunks(it, n):
    buf = []
    for x in it:
        buf.append(x)
        if len(buf) >= n:
            yield buf
            buf = []
    if buf:
        yield buf


def run_check(mod_name, tier, seed, replay=None):
    import importlib
    t0 = time.time()
    P = importlib.import_module(mod_name).PROP
    pid = P.id
    known_entries = load_known(pid)
    known = {e['trigger'] for e in known_entries}
    rnd = random.Random(seed)

    if replay:
        rp = json.load(open(replay))
        case = rp.get('case')
        if case is None:
            print('replay file names no failing input:', rp.get('kind'), rp.get('what'))
            return 1
        p, ri, rm, fails, dis = eval_one(P, case)
        print('case:', json.dumps(jsonable(case)))
        for f in fails:
            print('ORACLE-FAIL', json.dumps(jsonable(f)))
        for d in dis[:10]:
            print('MODEL-DIFF', json.dumps(jsonable(d)))
        un = unexplained(P, fails, known)
        print('verdict:', 'VIOLATION' if un else ('known finding only' if fails else 'holds on this case'))
        return 1 if un else 0

    ok, blog = ensure_build()
    pst = proof_status(pid) if ok else dict(obligations=0, discharged=0, axioms=[], broken=['build failed: ' + blog[-800:]],
                                             theorems=[], log=blog, checker_cmd='./setup.sh')
    model_ok = os.path.exists(os.path.join(VERIF, 'bin', 'dynmodel'))
    # second tie: the Python text of the modelled functions, translated on this run and re-checked against the model (sourcetie.py)
    import sourcetie, core as _core
    try:
        tie = sourcetie.check(pid, _core.REPO) if ok else None
    except Exception as x:
        tie = dict(status='broken', detail='source tie could not be evaluated: %r' % (x,))
    tie_broken = bool(tie) and tie.get('status') == 'broken'
    chk = None
    if tier == 'thorough' and ok and not pst['broken']:
        chk = coqchk_status(pid)
        if not chk['ok']:
            pst['broken'].append('coqchk rejected properties/%s.vo: %s' % (pid, chk['tail'][-300:]))
            pst['discharged'] = 0

    # cases
    corpus = []
    for f in sorted(glob.glob(os.path.join(VERIF, 'corpus', pid, '*.json'))):
        corpus.append(json.load(open(f))['case'])
    exh = list(P.exhaustive_cases(tier))
    n_rand = P.n_random(tier)
    import gen as _gen
    _gen.MANY_RUNS_P = min(0.05, 30.0 / max(n_rand, 1))      # about 30 long-timeline states per run: they are expensive
    rand = [add_prelife(rnd, c, pid) for c in P.random_cases(rnd, n_rand)]
    cases = corpus + exh + rand
    extra_scope = False

    stats = dict(evaluations=0, nontrivial=set(), classes={}, ndis=0, nops=0)
    all_fail, all_dis = [], []

    def sweep(cases):
        if not model_ok:
            return
        with multiprocessing.Pool(min(16, os.cpu_count() or 4)) as pool:
            results = pool.imap(eval_chunk, ((mod_name, ch) for ch in chunks(cases, 64)))
            for chunk in chunks(cases, 64):
                try:
                    # a chunk of 64 cases takes seconds; a worker that does not answer within CHUNK_TIMEOUT is stuck
                    # (an operation of the library, or of this harness, that does not terminate on one of these cases)
                    out = results.next(timeout=CHUNK_TIMEOUT)
                except multiprocessing.TimeoutError:
                    pool.terminate()
                    all_dis.append((chunk[0], [(None, None, 'no answer within %d s for a chunk of %d cases starting with this one: '
                                                'some operation does not terminate' % (CHUNK_TIMEOUT, len(chunk)), None)]))
                    break
                if out['error']:
                    all_dis.append((None, [(None, None, out['error'], None)]))
                    continue
                for c, r in zip(chunk, out['results']):
                    stats['evaluations'] += 1
                    stats['nops'] += r['nops']
                    if r['nt']:
                        stats['nontrivial'].add(case_hash(c))
                    for k, v in r['cls'].items():
                        stats['classes'][k] = stats['classes'].get(k, 0) + v
                    if r['fails']:
                        all_fail.append((c, r['fails']))
                    if r['ndis']:
                        stats['ndis'] += r['ndis']
                        all_dis.append((c, r['dis']))

    sweep(cases)

    # extraction cross-check: the smallest programs of this run, evaluated by vm_compute inside Coq
    vm = dict(checked=0, mismatches=[])
    if model_ok and cases:
        try:
            small = sorted((full_program(P, c)[0] for c in cases[:400] if not c.get('nomodel')), key=len)[:12]
            small = [p for p in small if len(p) <= 400]
            if small:
                vm = vm_crosscheck(pid, small)
                if vm['mismatches']:
                    all_dis.append((None, [(None, 'vm_compute-vs-extraction', vm['mismatches'], None)]))
        except Exception as x:
            vm = dict(checked=0, mismatches=[], error=repr(x))

    violation = None
    un_cases = [(c, unexplained(P, f, known)) for c, f in all_fail]
    un_cases = [(c, f) for c, f in un_cases if f]
    if un_cases:
        c, f = min(un_cases, key=replay_rank)
        small = shrink(P, c, known)
        p, ri, rm, fails, dis = eval_one(P, small)
        path = write_replay(pid, 'violation', dict(kind='failing-input', property=pid, case=small,
                                                   failures=unexplained(P, fails, known)[:5], program=[list(o) for o in p][:60]))
        violation = (path, '')
    elif pst['broken'] or all_dis or not model_ok or tie_broken:
        # proof or correspondence broken: widen the search before giving up on a failing input
        if model_ok and tier == 'quick':
            wide = list(P.exhaustive_cases('thorough')) + [add_prelife(rnd, c, pid) for c in P.random_cases(random.Random(seed + 1), 10 * n_rand)]
            extra_scope = True
            sweep(wide)
            un_cases = [(c, unexplained(P, f, known)) for c, f in all_fail]
            un_cases = [(c, f) for c, f in un_cases if f]
        if un_cases:
            c, f = min(un_cases, key=replay_rank)
            small = shrink(P, c, known)
            p, ri, rm, fails, dis = eval_one(P, small)
            path = write_replay(pid, 'violation', dict(kind='failing-input', property=pid, case=small,
                                                       failures=unexplained(P, fails, known)[:5], program=[list(o) for o in p][:60]))
            violation = (path, '')
        else:
            what = []
            if pst['broken']:
                what.append(dict(kind='proof-broken', theorems=pst['theorems'], detail=pst['broken']))
            if all_dis:
                c, d = all_dis[0]
                what.append(dict(kind='correspondence-broken', correspondence='model (coq/theories) vs dynetx on observables %s' % sorted(P.obs),
                                 first_differing_case=c, differences=d, n_differences=stats['ndis']))
            if not model_ok:
                what.append(dict(kind='model-binary-missing'))
            if what:
                path = write_replay(pid, 'unproved', dict(kind='no-failing-input-found', property=pid, what=what))
                violation = (path, ' no-failing-input-found')
            # else: only the source-level tie is broken (the code's text changed beyond what is re-proved automatically); the
            # theorems and the correspondence stand and the widened search found nothing: recorded, not an alarm

    # known findings still present?
    kf_lines = []
    for e in known_entries:
        try:
            p, ri, rm, fails, dis = eval_one(P, e['witness'])
            hit = [f for f in fails if f.get('trigger') == e['trigger'] and f.get('impl_eq_model')]
            if hit:
                kf_lines.append('KNOWN-FINDING: property=%s %s [%s]' % (pid, e['what'], e['id']))
        except Exception as x:
            pass

    n_known_fail = sum(1 for c, f in all_fail if not unexplained(P, f, known))
    samples = [jsonable(c) for c in (corpus[:1] + exh[:2] + rand[:3])][:6]
    ev = dict(property_id=pid, tier=tier, seed=seed, level='proof', wall_s=round(time.time() - t0, 2),
              violations=0 if violation is None else 1,
              coverage=dict(
                  obligations=pst['obligations'], discharged=pst['discharged'], checker_cmd=pst['checker_cmd'],
                  theorems=pst['theorems'], axioms_reported=pst['axioms'], proof_broken=pst['broken'],
                  trusted_base=P.trusted_base + (['axioms printed by Print Assumptions: %s' % pst['axioms']] if pst['axioms'] else
                                                 ['Print Assumptions: every theorem of properties/%s.v is closed under the global context' % pid]),
                  evaluations=stats['evaluations'], distinct_nontrivial=len(stats['nontrivial']), rule=P.rule,
                  samples=samples, exhaustive=bool(exh), exhaustive_scopes=P.scopes(tier), exhaustive_cases=len(exh),
                  random_cases=len(rand), corpus_cases=len(corpus), widened_after_break=extra_scope, source_tie=tie,
                  operations_executed=stats['nops'], input_distribution=stats['classes'],
                  model_impl_disagreements=stats['ndis'], cases_failing_only_by_known_findings=n_known_fail,
                  known_findings_seen=kf_lines, validated_only=P.validated_only, vm_compute_crosschecked=vm,
                  coqchk=(None if chk is None else dict(ok=chk['ok'], axioms=chk['axioms']))),
              assumptions=P.assumptions)
    os.makedirs(os.path.join(VERIF, 'evidence'), exist_ok=True)
    json.dump(jsonable(ev), open(os.path.join(VERIF, 'evidence', pid + '.json'), 'w'), indent=1)
    for l in kf_lines:
        print(l)
    if tie:
        print('SOURCE-TIE %s: %s (%s)' % (pid, tie.get('status'), tie.get('detail')))
    print('%s tier=%s seed=%d cases=%d (corpus %d, exhaustive %d, random %d) nontrivial=%d obligations=%d discharged=%d '
          'disagreements=%d known-only-failures=%d wall=%.1fs' % (pid, tier, seed, stats['evaluations'], len(corpus), len(exh), len(rand),
                                                                 len(stats['nontrivial']), pst['obligations'], pst['discharged'],
                                                                 stats['ndis'], n_known_fail, time.time() - t0))
    if violation:
        print('VIOLATION property=%s replay=%s%s' % (pid, violation[0], violation[1]))
        return 1
    return 0
