"""Source-level tie (second tie, besides the correspondence): the Python text of the statistics methods is translated to
Gallina by tools/py2gallina_stats.py ON EVERY RUN, from REPO's working tree, and the equalities `py_<f>_eq` (generated
definition = hand-written model function, proofs/PyGenStatsEq.v) are re-checked against what the code says now.

 * regenerated text identical to the committed snapshot coq/theories/gen/PyGenStats.v  -> the equalities are the ones the
   full build (make) has just checked: status 'identical'
 * different text -> a scratch copy of the development (symlinks to the compiled .vo files) gets the regenerated file and
   proofs/PyGenStatsEq.v is recompiled against it: status 'reproved' or 'broken' (the lemma at which it stops is named)
 * a function outside the translator's subset is reported by the translator (fail-closed): status 'broken'

A broken tie is not a violation by itself (the model is still tied to the code by the correspondence, and the theorems are
about the model): it makes the check WIDEN its search exactly as a broken proof does, and is recorded in the evidence.
"""
import os, sys, json, subprocess, shutil, re

VERIF = os.path.dirname(os.path.dirname(os.path.abspath(__file__)))
COQ = os.path.join(VERIF, 'coq')

# property -> functions of the generated file whose equality lemma the property's model functions rely on
FUNCS = {
    'C17': ['node_presence', 'coverage', 'node_contribution', 'edge_contribution', 'node_pair_uniformity', 'uniformity',
            'density', 'pair_density', 'node_density', 'avg_number_of_nodes', 'temporal_snapshots_ids'],
    'C04': ['temporal_snapshots_ids', 'avg_number_of_nodes'],
    'C18': ['compact_timeslot'],
    'C14': ['path_length', 'path_duration', 'annotate_paths'],
    'C01': ['presence_test_graph', 'has_interaction_graph', 'presence_test_digraph', 'has_interaction_digraph'],
    'C02': ['presence_test_graph', 'presence_test_digraph'],
    'C08': ['presence_test_graph', 'has_interaction_graph', 'presence_test_digraph', 'has_interaction_digraph'],
}
# property -> (translator, generated module, equality module); default: the statistics translator
TIES = {
    'C14': ('py2gallina_paths.py', 'PyGenPaths', 'PyGenPathsEq'),
    'C01': ('py2gallina_core.py', 'PyGenCore', 'PyGenCoreEq'),
    'C02': ('py2gallina_core.py', 'PyGenCore', 'PyGenCoreEq'),
    'C08': ('py2gallina_core.py', 'PyGenCore', 'PyGenCoreEq'),
}
DEFAULT_TIE = ('py2gallina_stats.py', 'PyGenStats', 'PyGenStatsEq')


def _sh(cmd, cwd=None, timeout=600):
    r = subprocess.run(cmd, shell=True, capture_output=True, text=True, timeout=timeout, cwd=cwd)
    return r.returncode, r.stdout, r.stderr


def check(pid, repo):
    """returns None when the property has no source tie, else a dict(status=identical|reproved|broken, ...)"""
    if pid not in FUNCS:
        return None
    want = FUNCS[pid]
    tool, GEN, EQ = TIES.get(pid, DEFAULT_TIE)
    work = os.path.join(VERIF, '.work', 'tie_%s_%d' % (pid, os.getpid()))
    shutil.rmtree(work, ignore_errors=True)
    os.makedirs(work)
    out = dict(functions=want, translator='tools/' + tool, snapshot='coq/theories/gen/%s.v' % GEN,
               equalities='coq/theories/proofs/%s.v (py_<f>_eq)' % EQ)
    try:
        gen = os.path.join(work, GEN + '.v')
        rc, so, se = _sh('%s %s %s %s' % (sys.executable, os.path.join(VERIF, 'tools', tool), repo, gen))
        if rc != 0:
            out.update(status='broken', detail='translator exit %d: %s' % (rc, (so + se)[-400:]))
            return out
        try:
            summ = json.loads(so)
        except Exception:
            out.update(status='broken', detail='translator output not understood: ' + so[-300:])
            return out
        failed = [f for f in summ.get('failed', []) if f.get('function') in want]
        missing = [f for f in want if f not in summ.get('translated', [])]
        out['translated'] = [f for f in want if f in summ.get('translated', [])]
        if failed or missing:
            out.update(status='broken', detail='outside the translated subset (fail-closed): %s' % (failed or missing))
            return out
        snap = os.path.join(COQ, 'theories', 'gen', GEN + '.v')
        if open(gen).read() == open(snap).read():
            ok = os.path.exists(os.path.join(COQ, 'theories', 'proofs', EQ + '.vo'))
            out.update(status='identical' if ok else 'broken',
                       detail='regenerated text = committed snapshot; equalities checked by the full build' if ok else EQ + '.vo missing')
            return out
        # regenerated text differs: re-prove in a scratch copy
        th = os.path.join(work, 'theories')
        for d, _, fs in os.walk(os.path.join(COQ, 'theories')):
            rel = os.path.relpath(d, os.path.join(COQ, 'theories'))
            os.makedirs(os.path.join(th, rel), exist_ok=True)
            for f in fs:
                if f.endswith('.vo') and not (f.startswith(GEN) or f.startswith('.')):
                    os.symlink(os.path.join(d, f), os.path.join(th, rel, f))
        shutil.copy(gen, os.path.join(th, 'gen', GEN + '.v'))
        shutil.copy(os.path.join(COQ, 'theories', 'proofs', EQ + '.v'), os.path.join(th, 'proofs', EQ + '.v'))
        rc, so, se = _sh('timeout 300 coqc -Q theories DynVerif theories/gen/%s.v' % GEN, cwd=work)
        if rc != 0:
            out.update(status='broken', detail='regenerated %s.v does not compile: ' % GEN + (so + se)[-400:])
            return out
        rc, so, se = _sh('timeout 600 coqc -Q theories DynVerif theories/proofs/%s.v' % EQ, cwd=work)
        if rc == 0:
            out.update(status='reproved', detail='source text changed; every py_<f>_eq re-proved against the regenerated definitions')
            return out
        # which lemma?
        m = re.search(r'line (\d+)', se)
        lemma = None
        if m:
            ln = int(m.group(1))
            lines = open(os.path.join(th, 'proofs', EQ + '.v')).read().split('\n')
            for i in range(min(ln, len(lines)) - 1, -1, -1):
                mm = re.match(r'\s*(?:Lemma|Theorem|Example)\s+([A-Za-z0-9_\']+)', lines[i])
                if mm:
                    lemma = mm.group(1)
                    break
        fn = lemma[3:-3] if lemma and lemma.startswith('py_') and lemma.endswith('_eq') else None
        if fn is not None and fn not in want and lemma is not None:
            # the lemma that broke belongs to a function this property does not use; the ones after it were not reached
            out.update(status='broken', detail='equality proof stops at %s (not a function of this property; later lemmas unchecked)' % lemma,
                       lemma=lemma, relevant=False)
        else:
            out.update(status='broken', detail='generated definition no longer provably equal to the model: %s: %s' % (lemma, se[-300:]), lemma=lemma,
                       relevant=True)
        return out
    finally:
        shutil.rmtree(work, ignore_errors=True)
