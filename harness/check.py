import sys, os, argparse
sys.path.insert(0, os.path.dirname(os.path.abspath(__file__)))
import engine

def main():
    ap = argparse.ArgumentParser()
    ap.add_argument('prop')
    ap.add_argument('--tier', default=os.environ.get('VERIF_TIER', 'quick'))
    ap.add_argument('--replay', default=None)
    a = ap.parse_args()
    seed = int(os.environ.get('VERIF_SEED', '20260930'))
    mod = 'props.' + a.prop.lower()
    sys.exit(engine.run_check(mod, a.tier, seed, a.replay))

main()
